/-! # C11 - pattern tables of `hypergraphx/motifs/utils.py generate_motifs` (core Lean only)

Patterns on `n` labelled nodes (positions `0..n-1`) are bit masks over `hyperedges n`
(the list `A` of `generate_motifs`: all node subsets of size `n, n-1, .., 2`, each size in
`itertools.combinations` order); bit `i` = hyperedge `i` present (the `power_set` mask).
`classes n`, `labeling n`, `orbit n c` follow `generate_motifs`, `connected` follows
`_is_connected`, `applyPerm (edgePerm ..)` follows `relabel`.  (Kept apart from the passes in
`Model/C11.lean` so that the kernel-checked certificates are not rebuilt when those change.) -/
namespace C11

abbrev HG := List (List Nat)

/-! ## small list utilities -/

def insertSorted (a : Nat) : List Nat → List Nat
  | [] => [a]
  | b :: bs => if a ≤ b then a :: b :: bs else b :: insertSorted a bs
/-- `sorted(..)` on node labels -/
def isort (l : List Nat) : List Nat := l.foldr insertSorted []

/-- `list(set(..))` up to order: first occurrences -/
def dedup {α} [BEq α] (l : List α) : List α :=
  l.foldl (fun acc x => if acc.contains x then acc else acc ++ [x]) []

/-- `itertools.combinations(xs, k)` -/
def subsetsOfSize : Nat → List Nat → List (List Nat)
  | 0, _ => [[]]
  | _+1, [] => []
  | k+1, x :: xs => (subsetsOfSize k xs).map (x :: ·) ++ subsetsOfSize (k+1) xs

/-- `n, n-1, .., 2` -/
def sizesDesc (n : Nat) : List Nat := ((List.range (n+1)).reverse).filter (2 ≤ ·)

/-- the sub-hyperedges of size `n..2` of the node list `S`, in the order of `generate_motifs`' `A` -/
def hyperedgesOf (n : Nat) (S : List Nat) : List (List Nat) :=
  (sizesDesc n).flatMap fun k => subsetsOfSize k S

def hyperedges (n : Nat) : List (List Nat) := hyperedgesOf n (List.range n)

def insertions (x : Nat) : List Nat → List (List Nat)
  | [] => [[x]]
  | y :: ys => (x :: y :: ys) :: (insertions x ys).map (y :: ·)
/-- all permutations (as lists `p` with `p[i]` = image of `i` when applied to `range n`) -/
def perms : List Nat → List (List Nat)
  | [] => [[]]
  | x :: xs => (perms xs).flatMap (insertions x)

/-! ## pattern tables (`generate_motifs`) -/

def nodeMask (e : List Nat) : Nat := e.foldl (fun a v => a ||| (1 <<< v)) 0

/-- `relabel` on one hyperedge, as a map on hyperedge indices: hyperedge `i` goes to the index of
`sorted(p[v] for v in e_i)` -/
def edgePerm (es : List (List Nat)) (p : List Nat) : List Nat :=
  es.map fun e => es.findIdx (· == isort (e.map fun v => p[v]!))

/-- bit `i` of `m`, moved to position `j` -/
def moveBit (m i j : Nat) : Nat := Nat.shiftLeft (Nat.land (Nat.shiftRight m i) 1) j
def applyPermGo : List Nat → Nat → Nat → Nat → Nat
  | [], _, _, acc => acc
  | j :: ts, i, m, acc => applyPermGo ts (i+1) m (Nat.lor acc (moveBit m i j))
/-- `relabel(edges, p)` on a mask: bit `i` of `m` moves to bit `tbl[i]` -/
def applyPerm (tbl : List Nat) (m : Nat) : Nat := applyPermGo tbl 0 m 0

/-- `_is_connected(edges, n)`: the present hyperedges cover all `n` nodes and one breadth-first
closure from the first hyperedge reaches all of them (`masks` = node masks of `hyperedges n`) -/
def connected (n : Nat) (masks : List Nat) (m : Nat) : Bool :=
  let present := (masks.zipIdx).filterMap fun (nm, i) => if m.testBit i then some nm else none
  match present with
  | [] => false
  | first :: _ =>
    let full := (1 <<< n) - 1
    let cover := present.foldl (· ||| ·) 0
    let step := fun (r : Nat) => present.foldl (fun r nm => if r &&& nm != 0 then r ||| nm else r) r
    let reach := (List.range n).foldl (fun r _ => step r) first
    cover == full && reach == full

def masks (n : Nat) : List Nat := (hyperedges n).map nodeMask
/-- one index table per node permutation -/
def tbls (n : Nat) : List (List Nat) := (perms (List.range n)).map (edgePerm (hyperedges n))
def numMasks (n : Nat) : Nat := 1 <<< (hyperedges n).length

/-- the loop of `generate_motifs`: a connected mask opens a new class unless one of its relabellings
is already a class -/
def genStep (n : Nat) (ms : List Nat) (tb : List (List Nat)) (acc : List Nat) (m : Nat) : List Nat :=
  if connected n ms m && !(tb.any fun t => acc.contains (applyPerm t m)) then acc ++ [m] else acc

def genClassesWith (n : Nat) (ms : List Nat) (tb : List (List Nat)) (count : Nat) : List Nat :=
  (List.range count).foldl (genStep n ms tb) []

/-- `isom_classes` of `generate_motifs(n)` in order of discovery (increasing mask) -/
def classes (n : Nat) : List Nat := genClassesWith n (masks n) (tbls n) (numMasks n)

/-- `mapping[c]`: the set of relabellings of the class representative `c` -/
def orbitWith (tb : List (List Nat)) (c : Nat) : List Nat := dedup (tb.map (applyPerm · c))
def orbit (n : Nat) (c : Nat) : List Nat := orbitWith (tbls n) c

/-- keys of `labeling`: every relabelling of every class -/
def labelingWith (tb : List (List Nat)) (cls : List Nat) : List Nat := dedup (cls.flatMap (orbitWith tb))
def labeling (n : Nat) : List Nat := labelingWith (tbls n) (classes n)

/-- smallest mask in the orbit (used by the specification, not by the passes) -/
def canonWith (tb : List (List Nat)) (m : Nat) : Nat := tb.foldl (fun best t => min best (applyPerm t m)) m
def canon (n : Nat) (m : Nat) : Nat := canonWith (tbls n) m

/-- the tail of every pass: `labeling[label] += 1` only `if labeled_motif in labeling`, then per
class the sum over `mapping[c]` -/
def tallyWith (tb : List (List Nat)) (cls lab : List Nat) (pats : List Nat) : List (Nat × Nat) :=
  let counted := pats.filter lab.contains
  cls.map fun c => (c, ((orbitWith tb c).map fun l => counted.count l).sum)

end C11
