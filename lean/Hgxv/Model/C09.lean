/-! Model of `hypergraphx/linalg/linalg.py` (matrix / tensor representations) - core Lean only.

Input = what the `Hypergraph` API hands to these routines:
* `nodes`  : `get_nodes()` (distinct labels, any order; labels are `Nat`, NOT assumed to be `0..N-1`),
* `es`     : `get_edges()` zipped with `get_weights()` - distinct canonical hyperedges with their weight
             (all weights `1` for an unweighted hypergraph),
* temporal : the list of `(time, hyperedge, weight)` records of `TemporalHypergraph.get_edges()`.

Matrices are dense `List (List α)` (row major).  The number type `α` is a parameter: the driver runs
the model over `Rat` (weights are dyadic rationals), the theorems are proved over every commutative
ring, hence also over `Int` (the repaired code: `int64`) and over `ZMod 256` (the arithmetic of the
unrepaired code, whose incidence matrices were multiplied as `uint8`; see `C09_adjacency_wraps`). -/
namespace C09

abbrev Edge := List Nat

/-! ### `LabelEncoder` : `classes_` = sorted distinct labels; `transform x` = position in `classes_` -/

/-- insertion into a strictly increasing list (duplicates are dropped, as `np.unique` does) -/
def insertSorted (a : Nat) : List Nat → List Nat
  | [] => [a]
  | b :: bs => if a < b then a :: b :: bs else if a = b then b :: bs else b :: insertSorted a bs

/-- `encoder.classes_` after `encoder.fit(get_nodes())` -/
def classes (nodes : List Nat) : List Nat := nodes.foldr insertSorted []

/-- `encoder.transform([x])[0]` (for a label that was seen; sklearn raises otherwise) -/
def encode (cls : List Nat) (x : Nat) : Nat := cls.idxOf x

/-- `get_inverse_mapping(encoder)` = `dict(zip(transform(classes_), classes_))`: row index ↦ label -/
def mapping (nodes : List Nat) : List (Nat × Nat) :=
  let cls := classes nodes
  (cls.map (encode cls)).zip cls

/-- matrix entry `(i, j)`; `none` outside the shape -/
def entry {α : Type} (M : List (List α)) (i j : Nat) : Option α := (M[i]?).bind (·[j]?)

section
variable {α : Type} [Add α] [Mul α] [Sub α] [Zero α] [NatCast α] [DecidableEq α]

/-- 0/1 indicator in the number type -/
def ind (b : Bool) : α := if b then ((1 : Nat) : α) else 0

/-- `hye_list_to_binary_incidence(hye_list, shape=(N, len(hye_list)))` made dense: the COO triplets are
`(i, j, 1)` for `i ∈ set(hye_j)`, so entry `(i, j)` is 1 exactly when `i` occurs in the `j`-th relabelled
hyperedge. -/
def binIncIdx (N : Nat) (hyes : List (List Nat)) : List (List α) :=
  (List.range N).map fun i => hyes.map fun e => ind (e.contains i)

/-- `inferred_N` : largest node index plus one (0 without any node) -/
def inferredN (hyes : List (List Nat)) : Nat := (hyes.flatten.map (· + 1)).foldl max 0

/-- the dense `(N, E)` matrix of the COO triplets when `E` may exceed the number of hyperedges (extra columns are empty) -/
def binIncPad (N E : Nat) (hyes : List (List Nat)) : List (List α) :=
  (List.range N).map fun i => (List.range E).map fun j => ind ((hyes.getD j []).contains i)

/-- `hye_list_to_binary_incidence(hye_list, shape)` called directly: the shape is inferred when absent and
rejected (`ValueError`) when smaller than the inferred one. -/
def hyeBinInc (hyes : List (List Nat)) (shape : Option (Nat × Nat)) : Option (List (List α)) :=
  match shape with
  | none => some (binIncPad (inferredN hyes) hyes.length hyes)
  | some (n, e) => if n < inferredN hyes ∨ e < hyes.length then none else some (binIncPad n e hyes)

/-- `binary_incidence_matrix(hypergraph)` : shape `(num_nodes, num_edges)`, hyperedges relabelled by the encoder -/
def binInc (nodes : List Nat) (edges : List Edge) : List (List α) :=
  let cls := classes nodes
  binIncIdx nodes.length (edges.map fun e => e.map (encode cls))

/-- `M.multiply(w)` with a row vector `w` (one factor per column) -/
def scaleCols (M : List (List α)) (w : List α) : List (List α) :=
  M.map fun row => List.zipWith (· * ·) row w

/-- `incidence_matrix(hypergraph)` = `binary_incidence.multiply(get_weights())` -/
def inc (nodes : List Nat) (es : List (Edge × α)) : List (List α) :=
  scaleCols (binInc nodes (es.map (·.1))) (es.map (·.2))

/-- `get_edges(order=d)` / `get_weights(order=d)` : hyperedges with `len(e) - 1 == d`, in listing order -/
def ofOrder (d : Nat) (es : List (Edge × α)) : List (Edge × α) :=
  es.filter fun e => e.1.length == d + 1

/-- node list of the sub-hypergraph `get_edges(order=d, subhypergraph=True, keep_isolated_nodes=k)`:
all nodes when `k`, otherwise the nodes occurring in a hyperedge of order `d`
(only `classes` and the number of distinct labels of this list are used). -/
def subNodes (d : Nat) (keepIso : Bool) (nodes : List Nat) (es : List (Edge × α)) : List Nat :=
  if keepIso then nodes else classes ((ofOrder d es).map (·.1)).flatten

/-- `incidence_matrix_by_order(hypergraph, d, keep_isolated_nodes=k)` -/
def incByOrder (d : Nat) (keepIso : Bool) (nodes : List Nat) (es : List (Edge × α)) : List (List α) :=
  inc (subNodes d keepIso nodes es) (ofOrder d es)

/-- the mapping returned with it -/
def mappingByOrder (d : Nat) (keepIso : Bool) (nodes : List Nat) (es : List (Edge × α)) : List (Nat × Nat) :=
  mapping (subNodes d keepIso nodes es)

/-- scalar product of two rows -/
def dot (r s : List α) : α := (List.zipWith (· * ·) r s).sum

/-- `A @ B.transpose()` -/
def mulT (A B : List (List α)) : List (List α) := A.map fun r => B.map fun s => dot r s

/-- `M.transpose()` for a matrix with `ncols` columns -/
def transpose (ncols : Nat) (M : List (List α)) : List (List α) :=
  (List.range ncols).map fun j => M.map fun row => row.getD j 0

/-- `adj.setdiag(0)` -/
def setDiag0 (M : List (List α)) : List (List α) :=
  M.zipIdx.map fun ri => ri.1.zipIdx.map fun xj => if ri.2 = xj.2 then 0 else xj.1

/-- `adj - sparse.diags(adj.diagonal())` -/
def subDiag (M : List (List α)) : List (List α) :=
  M.zipIdx.map fun ri => ri.1.zipIdx.map fun xj => if ri.2 = xj.2 then xj.1 - xj.1 else xj.1

/-- `adjacency_matrix(hypergraph)` = `B @ Bᵀ` (as wide integers after the repair of D25) with cleared diagonal -/
def adj (nodes : List Nat) (edges : List Edge) : List (List α) :=
  let B : List (List α) := binInc nodes edges
  setDiag0 (mulT B B)

/-- `adjacency_matrix_by_order(hypergraph, d)` = `I_d @ I_dᵀ` minus its diagonal, `I_d` the (weighted)
incidence of order `d` with all nodes kept -/
def adjByOrder (d : Nat) (nodes : List Nat) (es : List (Edge × α)) : List (List α) :=
  let I := incByOrder d true nodes es
  subDiag (mulT I I)

/-- `dual_random_walk_adjacency(hypergraph)` : `Bᵀ @ B`, every stored (non-zero) entry replaced by 1 -/
def dual (nodes : List Nat) (edges : List Edge) : List (List α) :=
  let Bt : List (List α) := transpose edges.length (binInc nodes edges)
  (mulT Bt Bt).map fun row => row.map fun x => if x = 0 then 0 else ((1 : Nat) : α)

/-- `hypergraph.degree(x, order=d)` : number of hyperedges of order `d` containing `x` -/
def degree (d : Nat) (es : List (Edge × α)) (x : Nat) : Nat :=
  (es.filter fun e => e.1.contains x && e.1.length == d + 1).length

/-- `sparse.diags(l)` -/
def diag (l : List α) : List (List α) :=
  l.zipIdx.map fun xi => (List.range l.length).map fun j => if xi.2 = j then xi.1 else 0

/-- `degree_matrix(hypergraph, d, mapping)` (repaired, D24): the degree of the LABEL of row `i` on the diagonal -/
def degMatrix (d : Nat) (nodes : List Nat) (es : List (Edge × α)) : List (List α) :=
  diag ((mapping nodes).map fun il => ((degree d es il.2 : Nat) : α))

/-- entrywise `A - B` -/
def matSub (A B : List (List α)) : List (List α) :=
  List.zipWith (fun r s => List.zipWith (· - ·) r s) A B

/-- `M.multiply(c)` for a scalar -/
def smul (c : α) (M : List (List α)) : List (List α) := M.map fun r => r.map fun x => c * x

/-- `laplacian_matrix_by_order(hypergraph, d)` = `D_d.multiply(d + 1) - I_d.dot(I_dᵀ)` -/
def laplacian (d : Nat) (nodes : List Nat) (es : List (Edge × α)) : List (List α) :=
  let I := incByOrder d true nodes es
  matSub (smul ((d + 1 : Nat) : α) (degMatrix d nodes es)) (mulT I I)

/-- `scipy.special.factorial(d - 1)` (0 for a negative argument) -/
def scaleFactor (d : Nat) : Nat := if d = 0 then 0 else (List.range (d - 1)).foldl (fun acc k => acc * (k + 1)) 1

/-- `laplacian_matrix_by_order(hypergraph, d, weighted=True)` -/
def laplacianScaled (d : Nat) (nodes : List Nat) (es : List (Edge × α)) : List (List α) :=
  smul ((scaleFactor d : Nat) : α) (laplacian d nodes es)

/-! ### adjacency tensor of a uniform hypergraph on nodes `0..N-1` -/

/-- all ways to insert `a` into `l` -/
def insertAll (a : Nat) : List Nat → List (List Nat)
  | [] => [[a]]
  | b :: l => (a :: b :: l) :: (insertAll a l).map (b :: ·)

/-- `itertools.permutations(edge)` (as a set of tuples) -/
def perms : List Nat → List (List Nat)
  | [] => [[]]
  | a :: l => (perms l).flatMap (insertAll a)

/-- all index tuples of length `k` over `0..N-1`, in `np.ndindex` (row-major) order -/
def tuples (N : Nat) : Nat → List (List Nat)
  | 0 => [[]]
  | k + 1 => (List.range N).flatMap fun a => (tuples N k).map (a :: ·)

/-- `hypergraph.is_uniform()` on a non-empty edge list: the common size -/
def uniformSize : List Edge → Option Nat
  | [] => none
  | e :: es => if es.all (fun f => f.length == e.length) then some e.length else none

/-- `adjacency_tensor(hypergraph)` as the finite map index tuple ↦ value (in row-major order);
`none` when the routine raises (no hyperedge / not uniform). -/
def tensor (N : Nat) (edges : List Edge) : Option (List (List Nat × α)) :=
  match uniformSize edges with
  | none => none
  | some k =>
    let ones := edges.flatMap perms
    some ((tuples N k).map fun p => (p, ind (ones.contains p)))

/-! ### temporal hypergraph: one adjacency matrix per time stamp -/

abbrev Rec (α : Type) := Nat × Edge × α

/-- keys of `temporal_hypergraph.subhypergraph()` : the times that occur (a dict: listed here in increasing order) -/
def times (recs : List (Rec α)) : List Nat := classes (recs.map (·.1))

/-- hyperedges (with weights) of the snapshot at `t`, in listing order -/
def snapshot (recs : List (Rec α)) (t : Nat) : List (Edge × α) :=
  (recs.filter fun r => r.1 == t).map (·.2)

/-- node list of the snapshot `Hypergraph` (nodes come only from its hyperedges) -/
def snapshotNodes (recs : List (Rec α)) (t : Nat) : List Nat :=
  classes ((snapshot recs t).map (·.1)).flatten

/-- `temporal_adjacency_matrix(th)[t]` = `adjacency_matrix(subhypergraph()[t])` -/
def temporalAdj (recs : List (Rec α)) (t : Nat) : List (List α) :=
  adj (snapshotNodes recs t) ((snapshot recs t).map (·.1))

/-- `temporal_adjacency_matrix_by_order(th, d)[t]` -/
def temporalAdjByOrder (d : Nat) (recs : List (Rec α)) (t : Nat) : List (List α) :=
  adjByOrder d (snapshotNodes recs t) (snapshot recs t)

end

/-! ### loops over the orders: `*_all_orders`, `compute_multiorder_laplacian` (extension round) -/
section
variable {α : Type} [Add α] [Mul α] [Sub α] [Zero α] [NatCast α] [DecidableEq α]

/-- `hypergraph.max_order()` = `max(get_sizes()) - 1`; `none` when `max()` of the empty sequence raises -/
def maxOrder (es : List (Edge × α)) : Option Nat :=
  match es with
  | [] => none
  | _ :: _ => some ((es.map fun e => e.1.length - 1).foldl max 0)

/-- `range(1, max_order + 1)` -/
def orders (es : List (Edge × α)) : Option (List Nat) :=
  (maxOrder es).map fun m => (List.range m).map (· + 1)

/-- `incidence_matrices_all_orders(hypergraph, keep_isolated_nodes=k)` : the dict `{d : I_d}` for `d = 1..max_order`
(in insertion order); `none` when `max_order()` raises (no hyperedge) -/
def incAllOrders (keepIso : Bool) (nodes : List Nat) (es : List (Edge × α)) : Option (List (Nat × List (List α))) :=
  (orders es).map fun ds => ds.map fun d => (d, incByOrder d keepIso nodes es)

/-- `laplacian_matrix_by_order(hypergraph, d, weighted)` with its flag -/
def lapFlag (weighted : Bool) (d : Nat) (nodes : List Nat) (es : List (Edge × α)) : List (List α) :=
  if weighted then laplacianScaled d nodes es else laplacian d nodes es

/-- `laplacian_matrices_all_orders(hypergraph, weighted)` : `{d : L_d}` for `d = 1..max_order` -/
def lapAllOrders (weighted : Bool) (nodes : List Nat) (es : List (Edge × α)) : Option (List (Nat × List (List α))) :=
  (orders es).map fun ds => ds.map fun d => (d, lapFlag weighted d nodes es)

/-- entrywise `A + B` -/
def matAdd (A B : List (List α)) : List (List α) :=
  List.zipWith (fun r s => List.zipWith (· + ·) r s) A B

/-- Python's `sum(list_of_matrices)` : `((0 + M1) + M2) + ...`; the integer `0` (here `none`) for the empty list -/
def matSum : List (List (List α)) → Option (List (List α))
  | [] => none
  | M :: Ms => some (Ms.foldl matAdd M)

/-- sum of the order-`d` degrees of all nodes (numerator of `np.average(degree_sequence(d).values())`) -/
def degreeTotal (d : Nat) (nodes : List Nat) (es : List (Edge × α)) : Nat :=
  (nodes.map fun x => degree d es x).sum

/-- result of `compute_multiorder_laplacian` -/
inductive MultiLap (α : Type) where
  /-- `sum([])` : the routine returns the integer `0` (no sigma, or `max_order() = 0`) -/
  | noMatrix : MultiLap α
  /-- `degree_weighted=True` and an order that is used has average degree 0: the factor is `1.0 / 0.0`
  (`inf`, entries `nan`); nothing is claimed about the returned matrix -/
  | undefScale : MultiLap α
  | mat : List (List α) → MultiLap α

variable [Div α]

/-- `1.0 / np.average(list(degree_sequence(d).values()))` = `N / Σ_x degree_d(x)` -/
def invAvgDegree (d : Nat) (nodes : List Nat) (es : List (Edge × α)) : α :=
  ((nodes.length : Nat) : α) / ((degreeTotal d nodes es : Nat) : α)

/-- one term of the multi-order sum: `L_d.multiply(sigma)` and, if `degree_weighted`, `.multiply(1.0 / <k_d>)` -/
def multiTerm (ow dw : Bool) (nodes : List Nat) (es : List (Edge × α)) (ds : Nat × α) : List (List α) :=
  let L := smul ds.2 (lapFlag ow ds.1 nodes es)
  if dw then smul (invAvgDegree ds.1 nodes es) L else L

/-- `compute_multiorder_laplacian(hypergraph, sigmas, order_weighted=ow, degree_weighted=dw)` :
the Laplacians of the orders `1..max_order` are paired with `sigmas` by `zip` (the longer list is cut);
`none` when `max_order()` raises (no hyperedge). -/
def multiorderLaplacian (sigmas : List α) (ow dw : Bool) (nodes : List Nat) (es : List (Edge × α)) :
    Option (MultiLap α) :=
  (orders es).map fun ds =>
    let pairs := ds.zip sigmas
    if dw && pairs.any (fun p => degreeTotal p.1 nodes es == 0) then MultiLap.undefScale
    else match matSum (pairs.map (multiTerm ow dw nodes es)) with
      | none => MultiLap.noMatrix
      | some M => MultiLap.mat M

end

/-! ### `temporal_adjacency_matrices_all_orders` -/
section
variable {α : Type} [Add α] [Mul α] [Sub α] [Zero α] [NatCast α] [DecidableEq α]

/-- `temporal_hypergraph.max_order()` (over all records; raises without records) -/
def temporalMaxOrder (recs : List (Rec α)) : Option Nat := maxOrder (recs.map (·.2))

/-- `temporal_adjacency_matrix_by_order(th, d)` : `{t : A_d(snapshot at t)}` over the times that occur -/
def temporalAdjByOrderAll (d : Nat) (recs : List (Rec α)) : List (Nat × List (List α)) :=
  (times recs).map fun t => (t, temporalAdjByOrder d recs t)

/-- `temporal_adjacency_matrices_all_orders(th, max_order)` : `{d : {t : A_d(snapshot at t)}}` for `d = 1..max_order`,
`max_order` given or `th.max_order()` -/
def temporalAdjAllOrders (maxOrd : Option Nat) (recs : List (Rec α)) :
    Option (List (Nat × List (Nat × List (List α)))) :=
  (match maxOrd with | some m => some m | none => temporalMaxOrder recs).map fun m =>
    ((List.range m).map (· + 1)).map fun d => (d, temporalAdjByOrderAll d recs)

end
end C09
