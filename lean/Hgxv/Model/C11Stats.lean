import Hgxv.Model.C11
/-! # C11 - the null-model arithmetic of `compute_motifs` / `compute_directed_motifs` (core Lean only)

`utils.avg`, `utils.diff_sum`, `utils.norm_vector`, `utils.directed_avg`, `utils.directed_diff_sum`: what the two
census functions do with the censuses of the configuration-model rounds (`runs_config_model > 0`).  Counts are
`Nat`, the arithmetic is exact over `Rat` (the code computes the same expressions in floating point);
`math.sqrt` is a parameter. -/
namespace C11

/-- the sums `s` of `avg`: `s += motifs[j][i][1]` over the rounds `j`, for every class index `i` -/
def colSums (len : Nat) (nulls : List (List Nat)) : List Nat :=
  nulls.foldl (fun acc m => List.zipWith (· + ·) acc m) (List.replicate len 0)

/-- `avg(motifs)`: `s / len(motifs)` -/
def avgNull (len : Nat) (nulls : List (List Nat)) : List Rat :=
  (colSums len nulls).map fun (s : Nat) => (s : Rat) / (nulls.length : Rat)

/-- one entry of `diff_sum`: `(observed - null) / (observed + null + 4)` -/
def relAb (o : Nat) (u : Rat) : Rat := ((o : Rat) - u) / ((o : Rat) + u + 4)

/-- what `compute_motifs` guarantees when it calls `diff_sum`: at least one round (`motifs[0]`), every round lists
the same classes as the observed census -/
def statsOk (obs : List Nat) (nulls : List (List Nat)) : Bool :=
  !nulls.isEmpty && nulls.all (·.length == obs.length)

/-- `diff_sum(observed, null_models)`; `none` = outside the guard (the code raises or truncates there) -/
def diffSum (obs : List Nat) (nulls : List (List Nat)) : Option (List Rat) :=
  if statsOk obs nulls then some (List.zipWith relAb obs (avgNull obs.length nulls)) else none

/-- `M` of `norm_vector` before the square root: `M += i**2` -/
def sumSq (a : List Rat) : Rat := (a.map fun x => x * x).sum

/-- `norm_vector(a)`; `s` is the value of `math.sqrt(M)` (`M == 0` iff the sum of squares is 0) -/
def normVector (s : Rat) (a : List Rat) : List Rat := if sumSq a = 0 then a else a.map (· / s)

/-! ## directed: dicts keyed by the canonical pattern (any key type) -/

section directed
variable {K : Type} [DecidableEq K]

/-- `m[key]` of `directed_avg`: the counts of `key` summed over all rounds -/
def dKeySum (nulls : List (List (K × Nat))) (k : K) : Nat :=
  (nulls.map fun m => ((m.filter fun p => p.1 = k).map (·.2)).sum).sum

/-- `key in u_null`: the key was reported by some round -/
def dHasKey (nulls : List (List (K × Nat))) (k : K) : Bool := nulls.any fun m => m.any fun p => p.1 = k

/-- `directed_diff_sum(observed, null_models)` with its two branches -/
def dDiffSum (obs : List (K × Nat)) (nulls : List (List (K × Nat))) : List Rat :=
  obs.map fun p =>
    if dHasKey nulls p.1 then relAb p.2 ((dKeySum nulls p.1 : Rat) / (nulls.length : Rat))
    else (p.2 : Rat) / ((p.2 : Rat) + 4)
end directed

end C11
