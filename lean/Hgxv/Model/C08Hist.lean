import Hgxv.Model.C08
/-! # C08 history model - the content of every Hypergraph object a user can hold (core Lean only)

The C08 functions (`Hgxv/Model/C08.lean`) take what `get_nodes()` / `get_edges()` list.  "For every hypergraph" ranges
over every object reachable through a history of the public operations over SEVERAL objects; this file models what
such a history makes of the content (set semantics, labels = ranks):

* `Hypergraph.add_node` / `add_edge` (`tuple(sorted(edge))`, a known hyperedge is not registered again)  <-> `addNode` / `addEdge`
* `remove_edge` (KeyError when absent)                                                                   <-> `removeEdge`
* `remove_node(node, keep_edges)` (incident hyperedges dropped, or re-inserted without the node - possibly `()`) <-> `removeNode`
* `clear`, `copy` (an independent object with the same content), `subhypergraph(nodes)`                  <-> `clear`, `Op.copy`, `sub`
* `populate_from_dict(deepcopy(other.expose_data_structures()))` (restore a snapshot)                    <-> `Op.restore`
* an object a loader / generator / filter hands over (`load_hypergraph`, `random_hypergraph`, `subhypergraph_by_orders`,
  `get_edges(subhypergraph=True)`, ...) enters a program with the content it LISTS                        <-> `Op.load`
* the listing of an object taken as its new starting point (after a call that raised, `add_random_edge`)  <-> `Op.put`

A call the code REJECTS (KeyError for an absent hyperedge / node) is part of a history like any other call: `stepSkip` /
`runSkip` leave every object as it was and go on (`run` stops there) - a user catches the exception and continues.

A program state is the list of the objects created so far; `step` applies one operation to ONE object and leaves every
other object as it is (`Hgxv/Props/C08.lean`, `C08_history_frame`): that is the specification a shallow `copy()`
violates.  `add_edges` / `remove_edges` / `remove_nodes` / the constructor are sequences of the single operations. -/
namespace C08
namespace Hist

/-- nodes in insertion order, canonical hyperedges in insertion order -/
structure Content where
  nodes : List Nat := []
  es : List Edge := []
deriving Repr, DecidableEq

/-- `sorted(edge)` -/
def insSorted (a : Nat) : List Nat → List Nat
  | [] => [a]
  | b :: t => if a ≤ b then a :: b :: t else b :: insSorted a t
def sortL (l : List Nat) : List Nat := l.foldr insSorted []

/-- `add_node`: `if node not in self._adj: self._adj[node] = []` -/
def addNode (c : Content) (x : Nat) : Content :=
  if x ∈ c.nodes then c else { c with nodes := c.nodes ++ [x] }

def addNodes (c : Content) (xs : List Nat) : Content := xs.foldl addNode c

/-- `add_edge`: canonical tuple; a new hyperedge is registered and its nodes are added -/
def addEdge (c : Content) (e : Edge) : Content :=
  if sortL e ∈ c.es then c else addNodes { c with es := c.es ++ [sortL e] } (sortL e)

/-- `remove_edge`: KeyError (`none`) when the hyperedge is absent -/
def removeEdge (c : Content) (e : Edge) : Option Content :=
  if sortL e ∈ c.es then some { c with es := c.es.filter (fun e' => e' != sortL e) } else none

/-- the hyperedge without the node -/
def dropNode (x : Nat) (e : Edge) : Edge := e.filter (fun y => y != x)

/-- `remove_node(node, keep_edges)`: KeyError (`none`) for an absent node; with `keep_edges` every incident hyperedge
is first re-inserted without the node (`add_edge(tuple(sorted(...)))`, possibly the empty hyperedge), then all
incident hyperedges and the node go -/
def removeNode (c : Content) (x : Nat) (keep : Bool) : Option Content :=
  if x ∈ c.nodes then
    let inc := c.es.filter (fun e => decide (x ∈ e))
    let c1 := if keep then inc.foldl (fun c e => addEdge c (dropNode x e)) c else c
    some { nodes := c1.nodes.filter (fun y => y != x), es := c1.es.filter (fun e => !decide (x ∈ e)) }
  else none

def clear (_ : Content) : Content := {}

/-- `subhypergraph(nodes)`: a new object with the listed nodes and the hyperedges inside them -/
def sub (c : Content) (ns : List Nat) : Content :=
  { nodes := (addNodes {} ns).nodes, es := c.es.filter (fun e => e.all (fun y => decide (y ∈ ns))) }

/-- one operation of a program over several objects (`i` = index of the object it is applied to) -/
inductive Op where
  | addNode (i x : Nat)
  | addEdge (i : Nat) (e : Edge)
  | removeEdge (i : Nat) (e : Edge)
  | removeNode (i x : Nat) (keep : Bool)
  | clear (i : Nat)
  | copy (i : Nat)
  | sub (i : Nat) (ns : List Nat)
  | restore (i src : Nat)
  | load (c : Content)
  | put (i : Nat) (c : Content)
deriving Repr, DecidableEq

/-- apply `f` to object `i` only -/
def modifyAt (st : List Content) (i : Nat) (f : Content → Option Content) : Option (List Content) :=
  match st[i]? with
  | some c => (f c).map (fun c' => st.set i c')
  | none => none

/-- one step; `copy` / `sub` append a new object, everything else changes object `i` alone -/
def step (st : List Content) : Op → Option (List Content)
  | .addNode i x => modifyAt st i (fun c => some (addNode c x))
  | .addEdge i e => modifyAt st i (fun c => some (addEdge c e))
  | .removeEdge i e => modifyAt st i (fun c => removeEdge c e)
  | .removeNode i x keep => modifyAt st i (fun c => removeNode c x keep)
  | .clear i => modifyAt st i (fun c => some (clear c))
  | .copy i => (st[i]?).map (fun c => st ++ [c])
  | .sub i ns => (st[i]?).map (fun c => st ++ [sub c ns])
  | .restore i src => match st[src]? with
    | some c => modifyAt st i (fun _ => some c)
    | none => none
  | .load c => some (st ++ [c])
  | .put i c => modifyAt st i (fun _ => some c)

/-- a whole program, started from one empty hypergraph -/
def run : List Content → List Op → Option (List Content)
  | st, [] => some st
  | st, op :: ops => match step st op with
    | some st' => run st' ops
    | none => none

/-- one call of a history in which rejected calls are caught: a rejected call changes nothing -/
def stepSkip (st : List Content) (op : Op) : List Content := (step st op).getD st

/-- a whole program with rejected calls inside: they are skipped, the calls after them are applied -/
def runSkip (st : List Content) (ops : List Op) : List Content := ops.foldl stepSkip st

end Hist
end C08
