import Hgxv.Model.C04Spec
/-! # C04, extension round - the constructor and the hashing view

Core Lean only (compiled into `driver_c04`).

* `construct` - `MultiplexHypergraph.__init__(edge_list, edge_layer, weighted, weights, hypergraph_metadata,
  node_metadata, edge_metadata)` as the code runs it: metadata dict, the `node_metadata` loop of `add_node`, the
  embedded / separate form of the layers with its two `ValueError`s, then ONE `add_edges` call whose rejection is
  the constructor's rejection.  `Spec.construct` is the same on the abstract map, `ctorOps` the history of public
  calls the constructor stands for.
* `hashView` - `expose_attributes_for_hashing()` (what `readwrite.hashing.hash_hypergraph` digests): the records in
  the order of `sorted(self._edge_list.keys())` - Python's lexicographic order on `(node tuple, layer)` - each
  looked up again through its canonical key, with `_weights.get(id, 1)` and `_edge_metadata.get(id, {})`, then the
  nodes in sorted order with their metadata.  `Spec.hashView` sorts the entries of the map. -/
namespace C04

/-! ## the constructor -/

/-- one element of `edge_list` when `edge_layer` is not given: a 2-tuple `(edge, layer)` or anything else -/
inductive CtorItem
  | pair (raw : List Node) (l : Layer)
  | other
  deriving Repr, DecidableEq

/-- the `edge_list` / `edge_layer` arguments -/
inductive CtorEdges
  | absent                                               -- `edge_list is None` (then `edge_layer`, `weights`, `edge_metadata` are ignored)
  | embedded (items : List CtorItem)                     -- `edge_layer is None`
  | separate (raws : List (List Node)) (ls : List Layer)
  deriving Repr

structure CtorArgs where
  weighted : Bool := false
  hm : HMeta := []
  /-- `node_metadata.items()` in dict order; `None` and `{}` are the empty list (`if node_metadata:`) -/
  nodeMeta : List (Node × Meta) := []
  edges : CtorEdges := .absent
  weights : Option (List Int) := none
  edgeMeta : Option (List Meta) := none
  deriving Repr

/-- `all(isinstance(edge, tuple) and len(edge) == 2 for edge in edge_list)` and the two comprehensions -/
def splitEmbedded : List CtorItem → Option (List (List Node) × List Layer)
  | [] => some ([], [])
  | .pair raw l :: t => (splitEmbedded t).map (fun p => (raw :: p.1, l :: p.2))
  | .other :: _ => none

/-- what the constructor hands to `add_edges`; `none` = it raises before, `some none` = no call at all -/
def ctorBatch : CtorEdges → Option (Option (List (List Node) × List Layer))
  | .absent => some none
  | .embedded items => (splitEmbedded items).map some
  | .separate raws ls => if raws.length ≠ ls.length then none else some (some (raws, ls))

/-- `for node, metadata in node_metadata.items(): self.add_node(node, metadata=metadata)` -/
def ctorNodes (s : Store) (nm : List (Node × Meta)) : Store := nm.foldl (fun s p => addNode s p.1 (some p.2)) s

/-- `MultiplexHypergraph(...)`; `none` = the constructor raises (there is no object) -/
def construct (a : CtorArgs) : Option Store :=
  match ctorBatch a.edges with
  | none => none
  | some none => some (ctorNodes (init a.weighted a.hm) a.nodeMeta)
  | some (some (raws, ls)) =>
    match addEdges (ctorNodes (init a.weighted a.hm) a.nodeMeta) raws ls a.weights a.edgeMeta with
    | (s, .ok) => some s
    | (_, .rej) => none

def Spec.ctorNodes (sp : Spec) (nm : List (Node × Meta)) : Spec := nm.foldl (fun sp p => Spec.addNode sp p.1 (some p.2)) sp

/-- the constructor on the abstract map -/
def Spec.construct (a : CtorArgs) : Option Spec :=
  match ctorBatch a.edges with
  | none => none
  | some none => some (Spec.ctorNodes (Spec.init a.weighted a.hm) a.nodeMeta)
  | some (some (raws, ls)) =>
    match Spec.addEdges (Spec.ctorNodes (Spec.init a.weighted a.hm) a.nodeMeta) raws ls a.weights a.edgeMeta with
    | (sp, .ok) => some sp
    | (_, .rej) => none

def nodeOps (nm : List (Node × Meta)) : List Op := nm.map (fun p => Op.addNode p.1 (some p.2))

/-- the public calls the constructor stands for (when its arguments have one of the two accepted forms) -/
def ctorOps (a : CtorArgs) : Option (List Op) :=
  match ctorBatch a.edges with
  | none => none
  | some none => some (nodeOps a.nodeMeta)
  | some (some (raws, ls)) => some (nodeOps a.nodeMeta ++ [Op.addEdges raws ls a.weights a.edgeMeta])

/-! ## Python's order on tuples of labels and on `(tuple, layer)` keys (labels and layer names are ranks) -/

def ltList : List Nat → List Nat → Bool
  | [], [] => false
  | [], _ :: _ => true
  | _ :: _, [] => false
  | a :: as, b :: bs => decide (a < b) || (decide (a = b) && ltList as bs)

def ltKey (k k' : Key) : Bool := ltList k.1 k'.1 || (decide (k.1 = k'.1) && decide (k.2 < k'.2))

def ltNat (a b : Nat) : Bool := decide (a < b)

/-- `sorted(...)` of items with pairwise different keys: insertion sort by `key` under `lt` -/
def insBy {α κ : Type} (key : α → κ) (lt : κ → κ → Bool) (x : α) : List α → List α
  | [] => [x]
  | y :: ys => if lt (key x) (key y) then x :: y :: ys else y :: insBy key lt x ys

def sortBy {α κ : Type} (key : α → κ) (lt : κ → κ → Bool) (l : List α) : List α := l.foldr (insBy key lt) []

/-! ## `expose_attributes_for_hashing` -/

structure HashView where
  weighted : Bool
  hmeta : HMeta
  edges : List (Key × (Int × Meta))
  nodes : List (Node × Meta)
  deriving Repr, DecidableEq

/-- the loop over the sorted keys: `edge = (tuple(sorted(edge[0])), edge[1]); edge_id = self._edge_list[edge]` (a
`KeyError` for a key that is not canonical: `none`), `_weights.get(edge_id, 1)`, `_edge_metadata.get(edge_id, {})` -/
def hashEdges (s : Store) : List Key → Option (List (Key × (Int × Meta)))
  | [] => some []
  | k :: ks =>
    match AL.get? s.edgeList (canon k.1, k.2) with
    | none => none
    | some id =>
      (hashEdges s ks).map (fun r => ((canon k.1, k.2), ((AL.get? s.weights id).getD one, (AL.get? s.emeta id).getD [])) :: r)

/-- `for node in sorted(self._node_metadata.keys()): nodes.append({"node": node, "metadata": self._node_metadata[node]})` -/
def hashNodes (s : Store) : List Node → Option (List (Node × Meta))
  | [] => some []
  | n :: ns =>
    match AL.get? s.nmeta n with
    | none => none
    | some md => (hashNodes s ns).map (fun r => (n, md) :: r)

/-- `expose_attributes_for_hashing()`; `none` = raises -/
def hashView (s : Store) : Option HashView :=
  match hashEdges s (sortBy id ltKey (records s)), hashNodes s (sortBy id ltNat (nodes s)) with
  | some es, some ns => some { weighted := s.weighted, hmeta := s.hmeta, edges := es, nodes := ns }
  | _, _ => none

/-- the map's entries in key order, the nodes in label order -/
def Spec.hashView (sp : Spec) : HashView :=
  { weighted := sp.weighted, hmeta := sp.hmeta
    edges := sortBy (fun (r : Key × (Int × Meta)) => r.1) ltKey sp.edges
    nodes := sortBy (fun (p : Node × Meta) => p.1) ltNat sp.nodes }

/-! ## the raw table getters `get_edge_list()` / `get_adj_dict()` (ids are visible here) -/

/-- `get_edge_list()`: the key -> id table -/
def edgeTable (s : Store) : List (Key × Nat) := s.edgeList
/-- `get_adj_dict()`: node -> ids of its records -/
def adjTable (s : Store) : List (Node × List Nat) := s.adj

end C04
