import Hgxv.Model.C03Full
import Hgxv.Model.C03Spec
/-! # C03, extension round - the constructor, the hashing view, the label mapping and the raw tables

Core Lean only (compiled into `driver_c03`).  `Model/C03.lean`, `C03Spec.lean`, `C03Full.lean` are UNCHANGED (the link
files of C07 / C08 / C19 import them): a third machine `xstep` sits on top of `fstep`.

* `construct` - `TemporalHypergraph.__init__(edge_list, time_list, weighted, weights, hypergraph_metadata,
  node_metadata, edge_metadata)` as the code runs it: the metadata dict with `weighted` / `type` written over it, the
  `node_metadata` loop of `add_node`, the embedded `(time, edge)` / separate form of the times with its three
  `ValueError`s, then ONE `add_edges` call whose rejection is the constructor's rejection (there is no object then).
  `Spec.construct` is the same text on the abstract map, `ctorCalls` the public calls the constructor stands for.
* `hashView` - `expose_attributes_for_hashing()` (what `readwrite.hashing.hash_hypergraph` digests): the records in
  the order of `sorted(self._edge_list.keys())` - Python's order on `(time, node tuple)` -, each looked up again
  through its re-sorted key, with `_weights.get(id, 1)` and `_edge_metadata.get(id, {})`, then the nodes in sorted
  order with their metadata.  `Spec.hashView` sorts the entries of the map.
* `mapping` - `get_mapping().classes_`: the sorted node labels (position = the integer the encoder assigns).
* `exposeTables` / `populate` - `expose_data_structures()` / `populate_from_dict(data)` (every entry of `data` is
  optional, with the defaults of the code), `edgeTable` / `adjTable` - `get_edge_list()` / `get_adj_dict()`. -/
namespace C03

/-! ## the constructor -/

/-- one element of `edge_list` when `time_list` is not given: a 2-tuple `(time, edge)` or anything else -/
inductive CtorItem
  | pair (t : TimeArg) (raw : List Nat)
  | other

/-- the `edge_list` / `time_list` arguments -/
inductive CtorEdges
  | absent                                                 -- both `None` (then `weights`, `edge_metadata` are ignored)
  | timesOnly                                              -- `edge_list is None`, `time_list` given: ValueError
  | embedded (items : List CtorItem)                       -- `time_list is None`
  | separate (raws : List (List Nat)) (ts : List TimeArg)

structure CtorArgs where
  weighted : Bool := false
  /-- `hypergraph_metadata` (`None` and `{}` alike: `hypergraph_metadata or {}`) -/
  hm : Option Meta := none
  /-- `node_metadata.items()` in dict order; `None` and `{}` are the empty list (`if node_metadata:`) -/
  nodeMeta : List (Node × Meta) := []
  edges : CtorEdges := .absent
  weights : Option (List Int) := none
  edgeMeta : Option (List Meta) := none

/-- `self._hypergraph_metadata = hypergraph_metadata or {}; .update({"weighted": weighted, "type": ...})`
(tokens as in `Store.new`: key 100 = "weighted", 101 = "type") -/
def ctorHMeta (w : Bool) (hm : Option Meta) : Meta :=
  AL.set (AL.set (hm.getD []) 100 (if w then 91 else 90)) 101 92

/-- the empty tables of `__init__` -/
def ctorInit (a : CtorArgs) : Store := { weighted := a.weighted, hmeta := ctorHMeta a.weighted a.hm }

/-- `all(isinstance(edge, tuple) and len(edge) == 2 for edge in edge_list)` and the two comprehensions -/
def splitEmbedded : List CtorItem → Option (List (List Nat) × List TimeArg)
  | [] => some ([], [])
  | .pair t raw :: rest => (splitEmbedded rest).map (fun p => (raw :: p.1, t :: p.2))
  | .other :: _ => none

/-- what the constructor hands to `add_edges`; `none` = it raises before, `some none` = no call at all -/
def ctorBatch : CtorEdges → Option (Option (List (List Nat) × List TimeArg))
  | .absent => some none
  | .timesOnly => none
  | .embedded items => (splitEmbedded items).map some
  | .separate raws ts => if raws.length ≠ ts.length then none else some (some (raws, ts))

/-- `for node, metadata in node_metadata.items(): self.add_node(node, metadata=metadata)` -/
def ctorNodes (s : Store) (nm : List (Node × Meta)) : Store := nm.foldl (fun s p => addNode s p.1 (some p.2)) s

/-- `TemporalHypergraph(...)`; `none` = the constructor raises (there is no object) -/
def construct (a : CtorArgs) : Option Store :=
  match ctorBatch a.edges with
  | none => none
  | some none => some (ctorNodes (ctorInit a) a.nodeMeta)
  | some (some (raws, ts)) =>
    match addEdges (ctorNodes (ctorInit a) a.nodeMeta) raws ts a.weights a.edgeMeta with
    | (s, .ok) => some s
    | (_, .rej) => none

def Spec.ctorInit (a : CtorArgs) : Spec := { weighted := a.weighted, hmeta := ctorHMeta a.weighted a.hm }

def Spec.ctorNodes (sp : Spec) (nm : List (Node × Meta)) : Spec := nm.foldl (fun sp p => Spec.addNode sp p.1 (some p.2)) sp

/-- the constructor on the abstract map -/
def Spec.construct (a : CtorArgs) : Option Spec :=
  match ctorBatch a.edges with
  | none => none
  | some none => some (Spec.ctorNodes (Spec.ctorInit a) a.nodeMeta)
  | some (some (raws, ts)) =>
    match Spec.addEdges (Spec.ctorNodes (Spec.ctorInit a) a.nodeMeta) raws ts a.weights a.edgeMeta with
    | (sp, .ok) => some sp
    | (_, .rej) => none

def nodeCalls (nm : List (Node × Meta)) : List SOp := nm.map (fun p => SOp.addNode p.1 (some p.2))

/-- the public calls on a fresh `TemporalHypergraph(weighted=w)` that the constructor stands for (when its arguments
have one of the accepted forms): `set_hypergraph_metadata`, `add_node` per entry of `node_metadata`, one `add_edges` -/
def ctorCalls (a : CtorArgs) : Option (List SOp) :=
  match ctorBatch a.edges with
  | none => none
  | some none => some (SOp.setHMeta (ctorHMeta a.weighted a.hm) :: nodeCalls a.nodeMeta)
  | some (some (raws, ts)) =>
    some (SOp.setHMeta (ctorHMeta a.weighted a.hm) :: (nodeCalls a.nodeMeta ++ [SOp.addEdges raws ts a.weights a.edgeMeta]))

/-- a run of public calls on one store (outcomes dropped: a rejected call changes nothing) -/
def runCalls (s : Store) (calls : List SOp) : Store := calls.foldl (fun s o => (applyOp s o).1) s

/-! ## Python's order on node tuples and on `(time, tuple)` keys (labels are ranks) -/

def ltList : List Nat → List Nat → Bool
  | [], [] => false
  | [], _ :: _ => true
  | _ :: _, [] => false
  | a :: as, b :: bs => decide (a < b) || (decide (a = b) && ltList as bs)

def ltKey (k k' : Key) : Bool := decide (k.1 < k'.1) || (decide (k.1 = k'.1) && ltList k.2 k'.2)

def ltNat (a b : Nat) : Bool := decide (a < b)

/-- `sorted(...)` of items with pairwise different keys: insertion sort by `key` under `lt` -/
def insBy {α κ : Type} (key : α → κ) (lt : κ → κ → Bool) (x : α) : List α → List α
  | [] => [x]
  | y :: ys => if lt (key x) (key y) then x :: y :: ys else y :: insBy key lt x ys

def sortBy {α κ : Type} (key : α → κ) (lt : κ → κ → Bool) (l : List α) : List α := l.foldr (insBy key lt) []

/-! ## `expose_attributes_for_hashing` -/

structure HashView where
  weighted : Bool
  hmeta : Meta
  edges : List (Key × (Int × Meta))
  nodes : List (Node × Meta)
  deriving DecidableEq

/-- the loop over the sorted keys: `edge = (edge[0], tuple(sorted(edge[1]))); edge_id = self._edge_list[edge]` (a
`KeyError` for a key that is not canonical: `none`), `_weights.get(edge_id, 1)`, `_edge_metadata.get(edge_id, {})` -/
def hashEdges (s : Store) : List Key → Option (List (Key × (Int × Meta)))
  | [] => some []
  | k :: ks =>
    match AL.get? s.edgeList (k.1, canon k.2) with
    | none => none
    | some id =>
      (hashEdges s ks).map (fun r => ((k.1, canon k.2), ((AL.get? s.weights id).getD one, (AL.get? s.emeta id).getD [])) :: r)

/-- `for node in sorted(self._node_metadata.keys()): nodes.append({"node": node, "metadata": self._node_metadata[node]})` -/
def hashNodes (s : Store) : List Node → Option (List (Node × Meta))
  | [] => some []
  | n :: ns =>
    match AL.get? s.nmeta n with
    | none => none
    | some md => (hashNodes s ns).map (fun r => (n, md) :: r)

/-- `expose_attributes_for_hashing()`; `none` = raises -/
def hashView (s : Store) : Option HashView :=
  match hashEdges s (sortBy id ltKey (edgeKeys s)), hashNodes s (sortBy id ltNat (AL.keys s.nmeta)) with
  | some es, some ns => some { weighted := s.weighted, hmeta := s.hmeta, edges := es, nodes := ns }
  | _, _ => none

/-- the map's entries in key order, the nodes in label order -/
def Spec.hashView (sp : Spec) : HashView :=
  { weighted := sp.weighted, hmeta := sp.hmeta
    edges := sortBy (fun (r : Key × (Int × Meta)) => r.1) ltKey sp.recs
    nodes := sortBy (fun (p : Node × Meta) => p.1) ltNat sp.nodes }

/-! ## `get_mapping()` -/

/-- `LabelEncoder().fit(self.get_nodes()).classes_`: the sorted distinct node labels; `transform` maps a node to its
position in this list -/
def mapping (s : Store) : List Node := sortBy id ltNat (AL.keys s.nmeta)

def Spec.mapping (sp : Spec) : List Node := sortBy id ltNat (AL.keys sp.nodes)

/-- `get_mapping().transform([n])[0]`; `none` = raises (label not seen) -/
def indexOf? : List Node → Node → Option Nat
  | [], _ => none
  | m :: ms, n => if m = n then some 0 else (indexOf? ms n).map (· + 1)

/-! ## the raw tables: `get_edge_list()`, `get_adj_dict()`, `expose_data_structures()` / `populate_from_dict()` -/

/-- `get_edge_list()`: the key -> id table -/
def edgeTable (s : Store) : List (Key × Nat) := s.edgeList
/-- `get_adj_dict()`: node -> ids of its records -/
def adjTable (s : Store) : List (Node × List Nat) := s.adj

/-- the dictionary `populate_from_dict` reads: every entry may be missing -/
structure TableDict where
  hmeta : Option Meta := none
  weighted : Option Bool := none
  weights : Option (List (Nat × Int)) := none
  adj : Option (List (Node × List Nat)) := none
  edgeList : Option (List (Key × Nat)) := none
  nmeta : Option (List (Node × Meta)) := none
  emeta : Option (List (Nat × Meta)) := none
  rev : Option (List (Nat × Key)) := none
  nextId : Option Nat := none
  deriving DecidableEq

/-- `expose_data_structures()`: every table of `Store` (not `_incidences_metadata`) -/
def exposeTables (s : Store) : TableDict :=
  { hmeta := some s.hmeta, weighted := some s.weighted, weights := some s.weights, adj := some s.adj,
    edgeList := some s.edgeList, nmeta := some s.nmeta, emeta := some s.emeta, rev := some s.rev,
    nextId := some s.nextId }

/-- `populate_from_dict(data)`: `data.get(name, default)` per table -/
def populate (d : TableDict) : Store :=
  { weighted := d.weighted.getD false, edgeList := d.edgeList.getD [], rev := d.rev.getD [], weights := d.weights.getD [],
    emeta := d.emeta.getD [], adj := d.adj.getD [], nmeta := d.nmeta.getD [], nextId := d.nextId.getD 0,
    hmeta := d.hmeta.getD [] }

/-! ## the machine with constructor calls and the new getters -/

inductive XQuery
  | hashing
  | mapping
  | indexOf (n : Node)
  | edgeTable
  | adjTable
  | tables

inductive XAns
  | rej
  | hash (h : HashView)
  | nodes (l : List Node)
  | nat (n : Nat)
  | edgeTable (l : List (Key × Nat))
  | adjTable (l : List (Node × List Nat))
  | tables (d : TableDict)
  deriving DecidableEq

def xanswer (s : Store) : XQuery → XAns
  | .hashing => match hashView s with | none => .rej | some h => .hash h
  | .mapping => .nodes (mapping s)
  | .indexOf n => match indexOf? (mapping s) n with | none => .rej | some i => .nat i
  | .edgeTable => .edgeTable (edgeTable s)
  | .adjTable => .adjTable (adjTable s)
  | .tables => .tables (exposeTables s)

/-- the answers that have a meaning on the abstract map (no ids) -/
def Spec.xanswer (sp : Spec) : XQuery → Option XAns
  | .hashing => some (.hash (Spec.hashView sp))
  | .mapping => some (.nodes (Spec.mapping sp))
  | .indexOf n => some (match indexOf? (Spec.mapping sp) n with | none => .rej | some i => .nat i)
  | _ => none

inductive XOp
  | f (op : FOp)
  | ctor (i : Nat) (a : CtorArgs)
  | ask (i : Nat) (q : XQuery)

inductive XRes
  | f (r : FRes)
  | out (o : Out)
  | ans (a : XAns)
  deriving DecidableEq

def xstep (st : FState) : XOp → FState × XRes
  | .f op => ((fstep st op).1, .f (fstep st op).2)
  | .ctor i a =>
    match construct a with
    | none => (st, .out .rej)
    | some s => (AL.set st i { base := s }, .out .ok)
  | .ask i q =>
    match AL.get? st i with
    | none => (st, .ans .rej)
    | some o => (st, .ans (xanswer o.base q))

def xrun (st : FState) (ops : List XOp) : FState := ops.foldl (fun st op => (xstep st op).1) st

/-- an extended call as a list of calls of the machine of `Model/C03Full.lean`: an accepted constructor call is
`TemporalHypergraph(weighted=w)` followed by `ctorCalls`, a refused one and a question are nothing -/
def XOp.expand : XOp → List FOp
  | .f op => [op]
  | .ctor i a =>
    match construct a, ctorCalls a with
    | some _, some calls => FOp.new i a.weighted :: calls.map (fun c => FOp.on i (.base c))
    | _, _ => []
  | .ask _ _ => []

/-- the constructor on the abstract side -/
def specCtor (st : SpecState) (i : Nat) (a : CtorArgs) : SpecState :=
  match Spec.construct a with
  | none => st
  | some sp => AL.set st i sp

end C03
