import Hgxv.Model.C14
/-! Draw accounting for the rejection loops and the OPTIONS of `scale_free_hypergraph` (core Lean only).

`Hgxv/Model/C14.lean` takes the draws of `scale_free_hypergraph` already grouped per size and only the results of the
hyperedge choices; which calls the routine makes on `np.random` for `correlated`, `num_shuffles` and `corr_target` was not
in the model.  Here the routine is a function of the WHOLE sequence of `np.random` calls (`SfEv`):

```
for size in edges_by_size:                                  per size, also for a count of 0
    exp_dist = np.random.exponential(scale, num_nodes)        exp num_nodes
    if correlated:
        for _ in range(num_shuffles): np.random.choice(num_nodes, size=2, replace=False)      swap a b  (exactly num_shuffles)
        if corr_target is not None and corr_target != 1 and old_dist is not None:
            while corr > corr_target: np.random.choice(num_nodes, size=2, replace=False)      swap a b  (any number)
    while len(edges) < num_edges: np.random.choice(nodes, size=size, replace=False, p=..)      choice size d
```
and `collectUsed` counts the draws a rejection loop `while len(edges) < k` takes from a stream. -/
namespace C14

/-- number of draws the loop `while len(edges) < k: edges.add(tuple(sorted(draw)))` takes from the stream `ds`
    (all of them when the stream ends before `k` distinct hyperedges were seen) -/
def collectUsed (k : Nat) (acc : List Edge) : List (List Nat) → Nat
  | [] => 0
  | d :: ds => if acc.length < k then collectUsed k (insNew acc (sortE d)) ds + 1 else 0

/-- one call on `np.random` made by `scale_free_hypergraph` -/
inductive SfEv where
  /-- `np.random.exponential(scale, m)` -/
  | exp (m : Nat)
  /-- result `(a, b)` of `np.random.choice(num_nodes, size=2, replace=False)` -/
  | swap (a b : Nat)
  /-- `np.random.choice(nodes, size=s, replace=False, p=..)` returned `d` -/
  | choice (s : Nat) (d : List Nat)
deriving Repr, DecidableEq

/-- contract of `np.random.choice(n, size=2, replace=False)`: two different positions below `n` -/
def swapOK (n a b : Nat) : Bool := decide (a < n) && decide (b < n) && decide (a ≠ b)

/-- `for _ in range(num_shuffles)`: exactly `j` swap calls -/
def takeSwaps (n : Nat) : Nat → List SfEv → Option (List SfEv)
  | 0, evs => some evs
  | j + 1, .swap a b :: evs => if swapOK n a b then takeSwaps n j evs else none
  | _ + 1, _ => none

/-- the Spearman loop `while corr > corr_target`: any number of swap calls (the test is float arithmetic outside the model) -/
def skipSwaps (n : Nat) : List SfEv → Option (List SfEv)
  | .swap a b :: evs => if swapOK n a b then skipSwaps n evs else none
  | evs => some evs

/-- the hyperedge choices (all asked with `size=s`) at the head of the trace, and what follows them -/
def takeChoices (s : Nat) : List SfEv → List (List Nat) × List SfEv
  | .choice s' d :: evs =>
    if s' = s then (d :: (takeChoices s evs).1, (takeChoices s evs).2) else ([], .choice s' d :: evs)
  | evs => ([], evs)

/-- the Spearman loop is entered: `correlated and corr_target is not None and corr_target != 1 and old_dist is not None` -/
def spearman (correlated : Bool) (corr : Option Rat) (first : Bool) : Bool :=
  correlated && !first && (match corr with | none => false | some c => c != 1)

/-- the swap calls of one size -/
def sizeSwaps (n : Nat) (correlated : Bool) (corr : Option Rat) (shuffles : Nat) (first : Bool) (evs : List SfEv) :
    Option (List SfEv) :=
  if correlated then
    match takeSwaps n shuffles evs with
    | none => none
    | some evs1 => if spearman correlated corr first then skipSwaps n evs1 else some evs1
  else some evs

/-- split the trace of a returning run into the groups of hyperedge choices, one per size in dict order; `none`: the
    trace does not have the shape the options prescribe -/
def sfParse (n : Nat) (correlated : Bool) (corr : Option Rat) (shuffles : Nat) :
    Bool → List (Nat × Nat) → List SfEv → Option (List (List (List Nat)))
  | _, [], [] => some []
  | _, [], _ :: _ => none
  | first, (s, _) :: req, .exp m :: evs =>
    if m = n then
      match sizeSwaps n correlated corr shuffles first evs with
      | none => none
      | some evs1 =>
        match sfParse n correlated corr shuffles false req (takeChoices s evs1).2 with
        | none => none
        | some gs => some ((takeChoices s evs1).1 :: gs)
    else none
  | _, _ :: _, _ => none

/-- `np.random.choice(num_nodes, size=2, replace=False)` raises with fewer than two nodes: reached when `correlated`,
    `num_shuffles >= 1` and there is at least one size -/
def swapsPossible (n : Nat) (sizes : List Nat) (correlated : Bool) (shuffles : Int) : Bool :=
  !(correlated && decide (0 < shuffles) && decide (n < 2) && !sizes.isEmpty)

inductive SfOut where
  /-- the call returned this hypergraph after exactly the calls of the trace -/
  | done (h : HG)
  /-- the call raises (validation, a size above `n` with a positive count, swaps with fewer than two nodes) -/
  | rej
  /-- the trace is not a run of the routine with these arguments -/
  | stuck
deriving Repr, DecidableEq

/-- `scale_free_hypergraph(n, edges_by_size, scale_by_size, correlated, corr_target, num_shuffles)` over the complete
    sequence of its `np.random` calls -/
def scaleFreeTrace (n : Nat) (sizes : List Nat) (counts : List Int) (scaleKeys : List Nat) (correlated : Bool)
    (corr : Option Rat) (shuffles : Int) (evs : List SfEv) : SfOut :=
  let req := sizes.zip (counts.map Int.toNat)
  if sfValid sizes counts scaleKeys correlated corr shuffles && admissible n req
      && swapsPossible n sizes correlated shuffles then
    match sfParse n correlated corr shuffles.toNat true req evs with
    | none => .stuck
    | some groups =>
      if sfReturned req groups then .done (sfLoop (addNodes {} (List.range n)) req groups) else .stuck
  else .rej

/-- the events of a given kind in a trace -/
def countExp (evs : List SfEv) : Nat := (evs.filter (fun e => match e with | .exp _ => true | _ => false)).length
def countSwap (evs : List SfEv) : Nat := (evs.filter (fun e => match e with | .swap _ _ => true | _ => false)).length
def countChoice (evs : List SfEv) : Nat := (evs.filter (fun e => match e with | .choice _ _ => true | _ => false)).length

/-! ## the validation paths: WHICH check refuses the arguments (the checks in the order of the code) -/

/-- `scale_free_hypergraph`, lines 37-59: the number of the first `raise ValueError` that is reached
    (1 "Cannot shuffle if correlated == False", 2 "Cannot shuffle negative number of times", 3 "Correlation must be between
    0 and 1", 4 "Cannot provide correlation value if correlated == False", 5 "Cannot provide both correlation value and
    number of shuffles", 6 "Must provide scale for each edge size", 7 "Must provide number of edges for each edge size",
    8 "Number of edges must be non-negative"); `none`: the validation passes -/
def sfError (sizes : List Nat) (counts : List Int) (scaleKeys : List Nat) (correlated : Bool)
    (corr : Option Rat) (shuffles : Int) : Option Nat :=
  if shuffles != 0 && !correlated then some 1
  else if shuffles < 0 then some 2
  else if (match corr with | none => false | some c => c < 0 || c > 1) then some 3
  else if corr.isSome && !correlated then some 4
  else if corr.isSome && shuffles != 0 then some 5
  else if !sizes.all (fun k => scaleKeys.contains k) then some 6
  else if !scaleKeys.all (fun k => sizes.contains k) then some 7
  else if !counts.all (fun c => !(c < 0)) then some 8
  else none

/-- `random_shuffle` / `add_random_edge(s)`: 1 "Order and size cannot be both specified.", 2 "Order or size must be
    specified.", 3 "p must be between 0 and 1." (`p = none`: the routine has no `p`) -/
def argError (order size : Option Nat) (p : Option (Int × Nat)) : Option Nat :=
  match order, size with
  | some _, some _ => some 1
  | none, none => some 2
  | _, _ =>
    match p with
    | some (pn, pd) => if 0 ≤ pn ∧ pn ≤ pd then none else some 3
    | none => none

end C14
