import Hgxv.Model.AList
/-! # C02 - executable model of `hypergraphx/core/directed_hypergraph.py` (core Lean only)

Mirrors `DirectedHypergraph` after the `fix:` commits of branch `wC02` (D5 add_node, D6 check_node,
D7 get_neighbors, D8 re-insert, D9 remove_node, D10 attr setters, D11 clear) plus
`hypergraphx/measures/degree.py`, `measures/directed/degree.py`, `utils/cc.py` (isolated nodes).

## API (for C05 / C06 / C07 / C19, which build on this file)

* Types: `Node = Nat` (rank of the label), `Meta = List (Nat × Nat)` (attribute token ↦ value token, a Python
  dict in insertion order), `Key = List Node × List Node` (sorted source tuple, sorted target tuple),
  weights are `Int` quanta of 1/4 (`one = 4` is Python's `1`), `Side`/`RawEdge` = a hyperedge as the caller
  wrote it (`Side.scalar n` is a bare node, accepted by `add_edge` only).
* `Store`: the ten attributes of the Python object as insertion-ordered association lists (`AL`):
  `edgeList : Key ↦ id`, `rev : id ↦ Key`, `weights`, `emeta : id ↦ Meta`, `adjS adjT : Node ↦ List id`,
  `nmeta : Node ↦ Meta`, `nextId`, `weighted`, `hmeta`.
* Mutators, one per Python method, `Store → … → Store × Out` (`Out.rej` = the call raised; for the batched calls
  the stores keeps the effects made before the failing element, exactly as the Python loops do):
  `addNode addNodes addEdge addEdges removeEdge removeEdges removeNode removeNodes setWeight setNodeMeta
  setEdgeMeta setHMeta setAttrH setAttrNode setAttrEdge delAttrNode delAttrEdge clear`, the constructor `ctor`;
  `Op` + `applyOp` bundle them; `Cmd` + `step : State → Cmd → State × Out` adds slots (`new`, `copy`).
* Queries, one per Python accessor (`none` = the call raises): `nodes nodesMeta checkNode numNodes edges
  edgesMeta numEdges checkEdge getWeight weightsDict sources targets sourceEdges targetEdges incident neighbors
  degree degreeSeq degreeDist inDegree outDegree inDegreeSeq outDegreeSeq sizes orders distSizes maxSize
  maxOrder isUniform nodeMeta edgeMeta allNodesMeta allEdgesMeta isolatedNodes isIsolated`, filter argument
  `Filt` (`all | size k | order k | both`).
* `Spec`: the abstract object the property names - nodes with metadata + association list
  `Key ↦ (weight, metadata)` - with `Spec.applyOp` and the same queries (`Spec.*`); `abs : Store → Spec`.
  Theorems about all this are in `Hgxv/Proofs/C02*.lean` and `Hgxv/Props/C02.lean`. -/
namespace C02

abbrev Node := Nat
abbrev Meta := List (Nat × Nat)
abbrev Key := List Node × List Node
abbrev Adj := List (Node × List Nat)

inductive Out | ok | rej deriving DecidableEq, Repr

/-- Python's `1` in quanta of 1/4 -/
def one : Int := 4

/-! ## metadata values that are not a dict

`Meta` is a Python dict `attribute token ↦ value token`.  A metadata value that is NOT a dict (`0`, `''`, `[]`, `None`,
`False`, `7`, `"x"`, `[1, 2]`, ... - `set_node_metadata`, `set_edge_metadata`, `add_node(metadata=...)`,
`add_edge(metadata=...)` store whatever object they are given) is written as the one-entry list `[(nonDict, value token)]`;
the attribute token `nonDict` is reserved and never used as a dict key.  Such a value is never equal to `{}` (the test of
`add_node`), and item assignment on it raises `TypeError` (`setAttr`).  Python's `None` handed to `add_node` / `add_edge` /
`add_edges` / the constructor as a `metadata` ARGUMENT means "not given" (`argMeta`; the wire writes `N` / `{}` there);
`remove_node(keep_edges=True)` passes the stored metadata of a hyperedge as such an argument. -/

def nonDict : Nat := 9
/-- value token of Python's `None` -/
def noneVal : Nat := 11
def isVal : Meta → Bool
  | [(a, _)] => a == nonDict
  | _ => false
def metaNone : Meta := [(nonDict, noneVal)]
/-- a stored metadata value handed on as the `metadata=` argument of `add_edge`: `None` becomes `{}` -/
def argMeta (md : Meta) : Meta := if md == metaNone then [] else md
/-- `md[field] = value`: `TypeError` unless `md` is a dict -/
def setAttr (a v : Nat) (md : Meta) : Option Meta := if isVal md then none else some (AL.set md a v)

/-! ## canonicalisation: `tuple(sorted(...))` -/

def insertSorted (a : Nat) : List Nat → List Nat
  | [] => [a]
  | b :: bs => if a ≤ b then a :: b :: bs else b :: insertSorted a bs
def sortNodes (l : List Nat) : List Nat := l.foldr insertSorted []

/-- a Python `set` of nodes as its strictly increasing list -/
def insertUniq (a : Nat) : List Nat → List Nat
  | [] => [a]
  | b :: bs => if a < b then a :: b :: bs else if a = b then b :: bs else b :: insertUniq a bs
def nodeSet (l : List Nat) : List Nat := l.foldr insertUniq []

/-- one side of a hyperedge as written by the caller: an iterable of nodes or a bare node -/
inductive Side
  | nodes (l : List Node)
  | scalar (n : Node)
  deriving DecidableEq, Repr

structure RawEdge where
  src : Side
  tgt : Side
  deriving DecidableEq, Repr

/-- `try: tuple(sorted(tuple(x))) except TypeError: tuple(sorted((x,)))` (add_edge only) -/
def Side.toList : Side → List Node
  | .nodes l => l
  | .scalar n => [n]
/-- `tuple(sorted(x))`: raises on a bare node (every entry point except add_edge) -/
def Side.strict : Side → Option (List Node)
  | .nodes l => some l
  | .scalar _ => none

def canonAdd (e : RawEdge) : Key := (sortNodes e.src.toList, sortNodes e.tgt.toList)
def canonStrict (e : RawEdge) : Option Key :=
  match e.src.strict, e.tgt.strict with
  | some s, some t => some (sortNodes s, sortNodes t)
  | _, _ => none
def RawEdge.ofKey (k : Key) : RawEdge := ⟨.nodes k.1, .nodes k.2⟩
def RawEdge.ofLists (s t : List Node) : RawEdge := ⟨.nodes s, .nodes t⟩

/-- `_get_edge_size` -/
def esize (k : Key) : Nat := k.1.length + k.2.length

/-! ## order/size filters -/

inductive Filt
  | all
  | size (k : Nat)
  | order (k : Nat)
  | both            -- order and size given: every query raises
  deriving DecidableEq, Repr

/-- `none`: rejected; `some none`: no filter; `some (some k)`: hyperedges of size `k`
    (`order = size - 1`, so `order k` is size `k + 1`) -/
def Filt.target : Filt → Option (Option Nat)
  | .all => some none
  | .size k => some (some k)
  | .order k => some (some (k + 1))
  | .both => none

/-- `up_to = False`: `size(e) - 1 == order`; `up_to = True`: `size(e) - 1 <= order` -/
def passes (t : Option Nat) (upTo : Bool) (k : Key) : Bool :=
  match t with
  | none => true
  | some m => if upTo then esize k ≤ m else esize k == m

/-! ## the concrete store -/

structure Store where
  weighted : Bool := false
  edgeList : List (Key × Nat) := []      -- _edge_list
  rev : List (Nat × Key) := []           -- _reverse_edge_list
  weights : List (Nat × Int) := []       -- _weights
  emeta : List (Nat × Meta) := []        -- _edge_metadata
  adjS : Adj := []                       -- _adj_source
  adjT : Adj := []                       -- _adj_target
  nmeta : List (Node × Meta) := []       -- _node_metadata
  nextId : Nat := 0                      -- _next_edge_id
  hmeta : Meta := []                     -- _hypergraph_metadata
  deriving DecidableEq, Repr

/-! ### nodes -/

/-- first half of `add_node`: create the three rows when the node is new -/
def ensureNode (s : Store) (n : Node) : Store :=
  if AL.has s.adjS n then s
  else { s with adjS := AL.set s.adjS n [], adjT := AL.set s.adjT n [], nmeta := AL.set s.nmeta n [] }

/-- `add_node(node, metadata)`: metadata is stored only while the node's metadata is `{}`.
    (`_node_metadata[node]` is defined whenever the node is in `_adj_source`: invariant `Inv.nmeta_keys`.) -/
def addNode (s : Store) (n : Node) (md : Option Meta) : Store :=
  let s1 := ensureNode s n
  match AL.get? s1.nmeta n with
  | some [] => { s1 with nmeta := AL.set s1.nmeta n (md.getD []) }
  | _ => s1

/-- `add_nodes(node_list)` -/
def addNodes (s : Store) : List Node → Store
  | [] => s
  | n :: ns => addNodes (addNode s n none) ns

/-! ### add_edge -/

/-- `adj[node].append(id)` (the row exists: `add_node` ran just before) -/
def pushId (adj : Adj) (n : Node) (id : Nat) : Adj :=
  AL.set adj n ((AL.get? adj n).getD [] ++ [id])

/-- `for node in source: self.add_node(node); self._adj_source[node].append(idx)` -/
def linkSrc (s : Store) (id : Nat) : List Node → Store
  | [] => s
  | n :: ns =>
    let s1 := addNode s n none
    linkSrc { s1 with adjS := pushId s1.adjS n id } id ns

/-- `for node in target: self.add_node(node); self._adj_target[node].append(idx)` -/
def linkTgt (s : Store) (id : Nat) : List Node → Store
  | [] => s
  | n :: ns =>
    let s1 := addNode s n none
    linkTgt { s1 with adjT := pushId s1.adjT n id } id ns

/-- branch `edge not in self._edge_list` -/
def addEdgeNew (s : Store) (k : Key) (wt : Int) (md : Meta) : Store :=
  let id := s.nextId
  let s1 := { s with edgeList := AL.set s.edgeList k id, rev := AL.set s.rev id k,
                     weights := AL.set s.weights id (if s.weighted then wt else one), nextId := id + 1 }
  let s2 := linkSrc s1 id k.1
  let s3 := linkTgt s2 id k.2
  { s3 with emeta := AL.set s3.emeta id md }

/-- branch `edge in self._edge_list`: weights add up when weighted, metadata replaced, adjacency untouched -/
def addEdgeOld (s : Store) (id : Nat) (wt : Int) (md : Meta) : Store :=
  { s with weights := if s.weighted then
                        (match AL.get? s.weights id with
                         | some w0 => AL.set s.weights id (w0 + wt)
                         | none => s.weights)
                      else s.weights,
           emeta := AL.set s.emeta id md }

/-- `add_edge` on an already canonical key -/
def addEdgeKey (s : Store) (k : Key) (w : Option Int) (md : Option Meta) : Store × Out :=
  if !s.weighted && w.isSome && w != some one then (s, .rej) else
  match AL.get? s.edgeList k with
  | none => (addEdgeNew s k (w.getD one) (md.getD []), .ok)
  | some id => (addEdgeOld s id (w.getD one) (md.getD []), .ok)

/-- `add_edge(edge, weight, metadata)` -/
def addEdge (s : Store) (e : RawEdge) (w : Option Int) (md : Option Meta) : Store × Out :=
  addEdgeKey s (canonAdd e) w md

/-- the loop of `add_edges`; `ws`/`mds` are the remaining weights / metadata (`none`: not given or falsy).
    A metadata list that is too short raises `IndexError` at that element (earlier elements stay). -/
def addEdgesLoop (s : Store) : List RawEdge → Option (List Int) → Option (List Meta) → Store × Out
  | [], _, _ => (s, .ok)
  | e :: es, ws, mds =>
    match mds with
    | some [] => (s, .rej)
    | _ =>
      match ws with
      | some [] => (s, .rej)
      | _ =>
        let r := addEdge s e (ws.bind List.head?) (mds.bind List.head?)
        match r.2 with
        | .rej => r
        | .ok => addEdgesLoop r.1 es (ws.map List.tail) (mds.map List.tail)

/-- `x if x else None` for a list argument -/
def truthy {α} : Option (List α) → Option (List α)
  | some [] => none
  | o => o

/-- `add_edges(edge_list, weights, metadata)`: giving weights makes the hypergraph weighted -/
def addEdges (s : Store) (es : List RawEdge) (ws : Option (List Int)) (mds : Option (List Meta)) : Store × Out :=
  let s0 := if ws.isSome && !s.weighted then { s with weighted := true } else s
  match ws with
  | some l => if es.length ≠ l.length then (s0, .rej) else addEdgesLoop s0 es (truthy ws) (truthy mds)
  | none => addEdgesLoop s0 es none (truthy mds)

/-! ### remove_edge -/

/-- `for node in side: adj[node].remove(id)` -/
def unlink (adj : Adj) (id : Nat) : List Node → Adj
  | [] => adj
  | n :: ns =>
    let adj1 := match AL.get? adj n with
      | some ids => AL.set adj n (ids.erase id)
      | none => adj
    unlink adj1 id ns

def removeEdgeKey (s : Store) (k : Key) : Store × Out :=
  match AL.get? s.edgeList k with
  | none => (s, .rej)
  | some id =>
    ({ s with adjS := unlink s.adjS id k.1, adjT := unlink s.adjT id k.2, rev := AL.erase s.rev id,
              weights := AL.erase s.weights id, emeta := AL.erase s.emeta id,
              edgeList := AL.erase s.edgeList k }, .ok)

/-- `remove_edge(edge)` -/
def removeEdge (s : Store) (e : RawEdge) : Store × Out :=
  match canonStrict e with
  | none => (s, .rej)
  | some k => removeEdgeKey s k

/-- `remove_edges`: stops at the first failure -/
def removeEdges (s : Store) : List RawEdge → Store × Out
  | [] => (s, .ok)
  | e :: es =>
    let r := removeEdge s e
    match r.2 with
    | .rej => r
    | .ok => removeEdges r.1 es

/-! ### queries needed by remove_node -/

/-- `[self._reverse_edge_list[i] for i in ids if <filter>]` (`none`: a dangling id would raise KeyError) -/
def keysOfIds (s : Store) (t : Option Nat) : List Nat → Option (List Key)
  | [] => some []
  | i :: is =>
    match AL.get? s.rev i, keysOfIds s t is with
    | some k, some ks => some (if passes t false k then k :: ks else ks)
    | _, _ => none

/-- `get_source_edges(node, order, size)` -/
def sourceEdges (s : Store) (n : Node) (f : Filt) : Option (List Key) :=
  match AL.get? s.adjS n, f.target with
  | some ids, some t => keysOfIds s t ids
  | _, _ => none

/-- `get_target_edges(node, order, size)` -/
def targetEdges (s : Store) (n : Node) (f : Filt) : Option (List Key) :=
  match AL.get? s.adjT n, f.target with
  | some ids, some t => keysOfIds s t ids
  | _, _ => none

/-- `get_weight` on a canonical key -/
def weightOfKey (s : Store) (k : Key) : Option Int :=
  match AL.get? s.edgeList k with
  | some id => AL.get? s.weights id
  | none => none

/-- `get_edge_metadata` on a canonical key -/
def metaOfKey (s : Store) (k : Key) : Option Meta :=
  match AL.get? s.edgeList k with
  | some id => AL.get? s.emeta id
  | none => none

/-! ### remove_node (after fix D9) -/

def shrinkKey (k : Key) (n : Node) : Key := (k.1.filter (· != n), k.2.filter (· != n))

/-- keep_edges=True, one incident hyperedge: re-insert it without the node, carrying weight and metadata;
    a hyperedge that would lose a whole side is dropped -/
def reinsert (s : Store) (n : Node) (k : Key) : Store × Out :=
  let k' := shrinkKey k n
  if k'.1.isEmpty || k'.2.isEmpty then (s, .ok) else
  match weightOfKey s k, metaOfKey s k with
  | some w, some md => addEdge s (RawEdge.ofKey k') (some w) (some (argMeta md))
  | _, _ => (s, .rej)

def reinsertAll (s : Store) (n : Node) : List Key → Store × Out
  | [] => (s, .ok)
  | k :: ks =>
    let r := reinsert s n k
    match r.2 with
    | .rej => r
    | .ok => reinsertAll r.1 n ks

def removeKeys (s : Store) : List Key → Store × Out
  | [] => (s, .ok)
  | k :: ks =>
    let r := removeEdge s (RawEdge.ofKey k)
    match r.2 with
    | .rej => r
    | .ok => removeKeys r.1 ks

/-- `del self._adj_source[node]; del self._adj_target[node]; del self._node_metadata[node]` -/
def dropNode (s : Store) (n : Node) : Store :=
  { s with adjS := AL.erase s.adjS n, adjT := AL.erase s.adjT n, nmeta := AL.erase s.nmeta n }

/-- `remove_node(node, keep_edges)` -/
def removeNode (s : Store) (n : Node) (keep : Bool) : Store × Out :=
  if !(AL.has s.adjS n) || !(AL.has s.adjT n) then (s, .rej) else
  match sourceEdges s n .all, targetEdges s n .all with
  | some se, some te =>
    let r1 := if keep then reinsertAll s n (se ++ te) else (s, .ok)
    match r1.2 with
    | .rej => r1
    | .ok =>
      let r2 := removeKeys r1.1 (se ++ te)
      match r2.2 with
      | .rej => r2
      | .ok => (dropNode r2.1 n, .ok)
  | _, _ => (s, .rej)

def removeNodes (s : Store) (keep : Bool) : List Node → Store × Out
  | [] => (s, .ok)
  | n :: ns =>
    let r := removeNode s n keep
    match r.2 with
    | .rej => r
    | .ok => removeNodes r.1 keep ns

/-! ### weights and metadata -/

/-- `set_weight(edge, weight)` -/
def setWeight (s : Store) (e : RawEdge) (w : Int) : Store × Out :=
  if !s.weighted && w != one then (s, .rej) else
  match canonStrict e with
  | none => (s, .rej)
  | some k =>
    match AL.get? s.edgeList k with
    | some id => ({ s with weights := AL.set s.weights id w }, .ok)
    | none => (s, .rej)

def setNodeMeta (s : Store) (n : Node) (md : Meta) : Store × Out :=
  if AL.has s.adjS n then ({ s with nmeta := AL.set s.nmeta n md }, .ok) else (s, .rej)

def setEdgeMeta (s : Store) (e : RawEdge) (md : Meta) : Store × Out :=
  match canonStrict e with
  | none => (s, .rej)
  | some k =>
    match AL.get? s.edgeList k with
    | some id => ({ s with emeta := AL.set s.emeta id md }, .ok)
    | none => (s, .rej)

def setHMeta (s : Store) (md : Meta) : Store := { s with hmeta := md }
def setAttrH (s : Store) (a v : Nat) : Store := { s with hmeta := AL.set s.hmeta a v }
/-- `set_attr_to_hypergraph_metadata`: `TypeError` when `set_hypergraph_metadata` stored a value that is not a dict -/
def setAttrHOp (s : Store) (a v : Nat) : Store × Out := if isVal s.hmeta then (s, .rej) else (setAttrH s a v, .ok)

/-- `set_attr_to_node_metadata` (tests membership in `_node_metadata`; `TypeError` when the stored value is not a dict) -/
def setAttrNode (s : Store) (n : Node) (a v : Nat) : Store × Out :=
  match AL.get? s.nmeta n with
  | some md => if isVal md then (s, .rej) else ({ s with nmeta := AL.set s.nmeta n (AL.set md a v) }, .ok)
  | none => (s, .rej)

/-- `remove_attr_from_node_metadata`: `del` raises KeyError when the attribute is missing -/
def delAttrNode (s : Store) (n : Node) (a : Nat) : Store × Out :=
  match AL.get? s.nmeta n with
  | some md => if AL.has md a then ({ s with nmeta := AL.set s.nmeta n (AL.erase md a) }, .ok) else (s, .rej)
  | none => (s, .rej)

/-- `set_attr_to_edge_metadata` (after fix D10) -/
def setAttrEdge (s : Store) (e : RawEdge) (a v : Nat) : Store × Out :=
  match canonStrict e with
  | none => (s, .rej)
  | some k =>
    match AL.get? s.edgeList k with
    | none => (s, .rej)
    | some id =>
      match AL.get? s.emeta id with
      | some md => if isVal md then (s, .rej) else ({ s with emeta := AL.set s.emeta id (AL.set md a v) }, .ok)
      | none => (s, .rej)

/-- `remove_attr_from_edge_metadata` (after fix D10) -/
def delAttrEdge (s : Store) (e : RawEdge) (a : Nat) : Store × Out :=
  match canonStrict e with
  | none => (s, .rej)
  | some k =>
    match AL.get? s.edgeList k with
    | none => (s, .rej)
    | some id =>
      match AL.get? s.emeta id with
      | some md => if AL.has md a then ({ s with emeta := AL.set s.emeta id (AL.erase md a) }, .ok) else (s, .rej)
      | none => (s, .rej)

/-- `clear()` (after fix D11): every table emptied; the id counter, the flag and the hypergraph metadata stay -/
def clear (s : Store) : Store :=
  { s with edgeList := [], rev := [], weights := [], emeta := [], adjS := [], adjT := [], nmeta := [] }

/-! ### constructor -/

/-- reserved hypergraph-metadata tokens: attribute 0 = "weighted", attribute 1 = "type";
    values 0 = False, 1 = True, 2 = "DirectedHypergraph" -/
def ctorHMeta (hm : Option Meta) (weighted : Bool) : Meta :=
  AL.set (AL.set (hm.getD []) 0 (if weighted then 1 else 0)) 1 2

def addNodesMeta (s : Store) : List (Node × Meta) → Store
  | [] => s
  | (n, md) :: r => addNodesMeta (addNode s n (some md)) r

/-- `DirectedHypergraph(edge_list, weighted, weights, hypergraph_metadata, node_metadata, edge_metadata)`;
    `rej`: the constructor raised, no object -/
def ctor (weighted : Bool) (hm : Option Meta) (nm : Option (List (Node × Meta)))
    (es : Option (List RawEdge)) (ws : Option (List Int)) (mds : Option (List Meta)) : Store × Out :=
  let s0 : Store := { weighted := weighted, hmeta := ctorHMeta hm weighted }
  let s1 := addNodesMeta s0 (nm.getD [])
  match es with
  | none => (s1, .ok)
  | some el =>
    if weighted && ws.isSome && el.length ≠ (ws.getD []).length then (s1, .rej)
    else addEdges s1 el ws mds

/-! ### operations bundled -/

inductive Op
  | addNode (n : Node) (md : Option Meta)
  | addNodes (ns : List Node)
  | addEdge (e : RawEdge) (w : Option Int) (md : Option Meta)
  | addEdges (es : List RawEdge) (ws : Option (List Int)) (mds : Option (List Meta))
  | removeEdge (e : RawEdge)
  | removeEdges (es : List RawEdge)
  | removeNode (n : Node) (keep : Bool)
  | removeNodes (ns : List Node) (keep : Bool)
  | setWeight (e : RawEdge) (w : Int)
  | setNodeMeta (n : Node) (md : Meta)
  | setEdgeMeta (e : RawEdge) (md : Meta)
  | setHMeta (md : Meta)
  | setAttrH (a v : Nat)
  | setAttrNode (n : Node) (a v : Nat)
  | setAttrEdge (e : RawEdge) (a v : Nat)
  | delAttrNode (n : Node) (a : Nat)
  | delAttrEdge (e : RawEdge) (a : Nat)
  | clear
  deriving Repr

def applyOp (s : Store) : Op → Store × Out
  | .addNode n md => (addNode s n md, .ok)
  | .addNodes ns => (addNodes s ns, .ok)
  | .addEdge e w md => addEdge s e w md
  | .addEdges es ws mds => addEdges s es ws mds
  | .removeEdge e => removeEdge s e
  | .removeEdges es => removeEdges s es
  | .removeNode n keep => removeNode s n keep
  | .removeNodes ns keep => removeNodes s keep ns
  | .setWeight e w => setWeight s e w
  | .setNodeMeta n md => setNodeMeta s n md
  | .setEdgeMeta e md => setEdgeMeta s e md
  | .setHMeta md => (setHMeta s md, .ok)
  | .setAttrH a v => setAttrHOp s a v
  | .setAttrNode n a v => setAttrNode s n a v
  | .setAttrEdge e a v => setAttrEdge s e a v
  | .delAttrNode n a => delAttrNode s n a
  | .delAttrEdge e a => delAttrEdge s e a
  | .clear => (clear s, .ok)

def run (s : Store) : List Op → Store
  | [] => s
  | o :: os => run (applyOp s o).1 os

/-! ### several objects: slots, constructor, copy -/

abbrev State := List (Nat × Store)     -- slot ↦ object

inductive Cmd
  | new (slot : Nat) (weighted : Bool) (hm : Option Meta) (nm : Option (List (Node × Meta)))
        (es : Option (List RawEdge)) (ws : Option (List Int)) (mds : Option (List Meta))
  | copy (src dst : Nat)
  | op (slot : Nat) (o : Op)
  deriving Repr

def step (st : State) : Cmd → State × Out
  | .new slot w hm nm es ws mds =>
    match ctor w hm nm es ws mds with
    | (s, .ok) => (AL.set st slot s, .ok)
    | (_, .rej) => (st, .rej)
  | .copy a b =>
    match AL.get? st a with
    | some s => (AL.set st b s, .ok)
    | none => (st, .rej)
  | .op slot o =>
    match AL.get? st slot with
    | some s => let r := applyOp s o; (AL.set st slot r.1, r.2)
    | none => (st, .rej)

/-! ## queries -/

def nodes (s : Store) : List Node := AL.keys s.adjS

/-- `get_nodes(metadata=True)`: `{node: self._node_metadata[node] for node in self._adj_source}` -/
def nodesMeta (s : Store) : Option (List (Node × Meta)) :=
  (nodes s).mapM (fun n => (AL.get? s.nmeta n).map (fun md => (n, md)))

def checkNode (s : Store) (n : Node) : Bool := AL.has s.adjS n
def numNodes (s : Store) : Nat := (nodes s).length
def numEdges (s : Store) : Nat := s.edgeList.length

/-- `get_edges(order, size, up_to)` -/
def edges (s : Store) (f : Filt) (upTo : Bool) : Option (List Key) :=
  f.target.map (fun t => (AL.keys s.edgeList).filter (passes t upTo))

/-- `get_edges(..., metadata=True)` -/
def edgesMeta (s : Store) (f : Filt) (upTo : Bool) : Option (List (Key × Meta)) :=
  (edges s f upTo).bind (fun ks => ks.mapM (fun k => (metaOfKey s k).map (fun md => (k, md))))

/-- `get_weights(order, size, up_to, asdict=True)` (the list form is the values of this) -/
def weightsDict (s : Store) (f : Filt) (upTo : Bool) : Option (List (Key × Int)) :=
  (edges s f upTo).bind (fun ks => ks.mapM (fun k => (weightOfKey s k).map (fun w => (k, w))))

def checkEdge (s : Store) (e : RawEdge) : Option Bool :=
  (canonStrict e).map (fun k => AL.has s.edgeList k)
def getWeight (s : Store) (e : RawEdge) : Option Int := (canonStrict e).bind (weightOfKey s)
def edgeMeta (s : Store) (e : RawEdge) : Option Meta := (canonStrict e).bind (metaOfKey s)

def sources (s : Store) : List (List Node) := (AL.keys s.edgeList).map (·.1)
def targets (s : Store) : List (List Node) := (AL.keys s.edgeList).map (·.2)

/-- `get_incident_edges` = source edges ++ target edges -/
def incident (s : Store) (n : Node) (f : Filt) : Option (List Key) :=
  match sourceEdges s n f, targetEdges s n f with
  | some a, some b => some (a ++ b)
  | _, _ => none

/-- `get_neighbors`: the set of the other nodes of the incident hyperedges, as a strictly increasing list -/
def neighbors (s : Store) (n : Node) (f : Filt) : Option (List Node) :=
  if !(AL.has s.adjS n) || !(AL.has s.adjT n) then none else
  (incident s n f).map (fun ks => nodeSet ((ks.flatMap (fun k => k.1 ++ k.2)).filter (· != n)))

def degree (s : Store) (n : Node) (f : Filt) : Option Nat := (incident s n f).map List.length
def inDegree (s : Store) (n : Node) (f : Filt) : Option Nat := (sourceEdges s n f).map List.length
def outDegree (s : Store) (n : Node) (f : Filt) : Option Nat := (targetEdges s n f).map List.length

/-- `degree_sequence`: rejects `both` up front -/
def degreeSeq (s : Store) (f : Filt) : Option (List (Node × Nat)) :=
  match f.target with
  | none => none
  | some _ => (nodes s).mapM (fun n => (degree s n f).map (fun d => (n, d)))

/-- `in_degree_sequence`: a dict comprehension, so `both` only raises when there is a node -/
def inDegreeSeq (s : Store) (f : Filt) : Option (List (Node × Nat)) :=
  (nodes s).mapM (fun n => (inDegree s n f).map (fun d => (n, d)))
def outDegreeSeq (s : Store) (f : Filt) : Option (List (Node × Nat)) :=
  (nodes s).mapM (fun n => (outDegree s n f).map (fun d => (n, d)))

/-- histogram `value ↦ multiplicity` in first-occurrence order -/
def histogram : List Nat → List (Nat × Nat)
  | [] => []
  | d :: ds =>
    let h := histogram ds
    AL.set h d ((AL.get? h d).getD 0 + 1)

def degreeDist (s : Store) (f : Filt) : Option (List (Nat × Nat)) :=
  (degreeSeq s f).map (fun l => histogram (l.map (·.2)))

def sizes (s : Store) : List Nat := (AL.keys s.edgeList).map esize
def orders (s : Store) : List Int := (AL.keys s.edgeList).map (fun k => (esize k : Int) - 1)
def distSizes (s : Store) : List (Nat × Nat) := histogram (sizes s)
/-- `max(self.get_sizes())` raises on an empty hypergraph -/
def maxSize (s : Store) : Option Nat :=
  match sizes s with
  | [] => none
  | a :: l => some (l.foldl max a)
def maxOrder (s : Store) : Option Int := (maxSize s).map (fun m => (m : Int) - 1)
/-- `is_uniform`: compares `len(set(source) | set(target))` -/
def isUniform (s : Store) : Bool :=
  match (AL.keys s.edgeList).map (fun k => (nodeSet (k.1 ++ k.2)).length) with
  | [] => true
  | a :: l => l.all (· == a)

def nodeMeta (s : Store) (n : Node) : Option Meta :=
  if AL.has s.adjS n then AL.get? s.nmeta n else none
def allNodesMeta (s : Store) : List Meta := s.nmeta.map (·.2)
def allEdgesMeta (s : Store) : List Meta := s.emeta.map (·.2)

/-- `isolated_nodes` -/
def isolatedNodes (s : Store) (f : Filt) : Option (List Node) :=
  match f.target with
  | none => none
  | some _ =>
    ((nodes s).mapM (fun n => (neighbors s n f).map (fun nb => (n, nb.isEmpty)))).map
      (fun l => (l.filter (·.2)).map (·.1))
def isIsolated (s : Store) (n : Node) (f : Filt) : Option Bool :=
  match f.target with
  | none => none
  | some _ => (neighbors s n f).map List.isEmpty

/-! ## the abstract object: nodes with metadata + map (source set, target set) ↦ (weight, metadata) -/

structure Spec where
  weighted : Bool := false
  nodes : List (Node × Meta) := []
  edges : List (Key × (Int × Meta)) := []     -- creation order (Python dict order)
  hmeta : Meta := []
  deriving DecidableEq, Repr

namespace Spec

def addNode (s : Spec) (n : Node) (md : Option Meta) : Spec :=
  match AL.get? s.nodes n with
  | none => { s with nodes := AL.set s.nodes n (md.getD []) }
  | some [] => { s with nodes := AL.set s.nodes n (md.getD []) }
  | some _ => s

def addNodes (s : Spec) : List Node → Spec
  | [] => s
  | n :: ns => addNodes (addNode s n none) ns

def touchAll (s : Spec) : List Node → Spec
  | [] => s
  | n :: ns => touchAll (addNode s n none) ns

def addEdgeKey (s : Spec) (k : Key) (w : Option Int) (md : Option Meta) : Spec × Out :=
  if !s.weighted && w.isSome && w != some one then (s, .rej) else
  match AL.get? s.edges k with
  | none =>
    let s1 := touchAll s (k.1 ++ k.2)
    ({ s1 with edges := AL.set s1.edges k (if s.weighted then w.getD one else one, md.getD []) }, .ok)
  | some (w0, _) =>
    ({ s with edges := AL.set s.edges k (if s.weighted then w0 + w.getD one else w0, md.getD []) }, .ok)

def addEdge (s : Spec) (e : RawEdge) (w : Option Int) (md : Option Meta) : Spec × Out :=
  addEdgeKey s (canonAdd e) w md

def addEdgesLoop (s : Spec) : List RawEdge → Option (List Int) → Option (List Meta) → Spec × Out
  | [], _, _ => (s, .ok)
  | e :: es, ws, mds =>
    match mds with
    | some [] => (s, .rej)
    | _ =>
      match ws with
      | some [] => (s, .rej)
      | _ =>
        let r := addEdge s e (ws.bind List.head?) (mds.bind List.head?)
        match r.2 with
        | .rej => r
        | .ok => addEdgesLoop r.1 es (ws.map List.tail) (mds.map List.tail)

def addEdges (s : Spec) (es : List RawEdge) (ws : Option (List Int)) (mds : Option (List Meta)) : Spec × Out :=
  let s0 := if ws.isSome && !s.weighted then { s with weighted := true } else s
  match ws with
  | some l => if es.length ≠ l.length then (s0, .rej) else addEdgesLoop s0 es (truthy ws) (truthy mds)
  | none => addEdgesLoop s0 es none (truthy mds)

def removeEdgeKey (s : Spec) (k : Key) : Spec × Out :=
  if AL.has s.edges k then ({ s with edges := AL.erase s.edges k }, .ok) else (s, .rej)

def removeEdge (s : Spec) (e : RawEdge) : Spec × Out :=
  match canonStrict e with
  | none => (s, .rej)
  | some k => removeEdgeKey s k

def removeEdges (s : Spec) : List RawEdge → Spec × Out
  | [] => (s, .ok)
  | e :: es =>
    let r := removeEdge s e
    match r.2 with
    | .rej => r
    | .ok => removeEdges r.1 es

def reinsert (s : Spec) (n : Node) (k : Key) : Spec × Out :=
  let k' := shrinkKey k n
  if k'.1.isEmpty || k'.2.isEmpty then (s, .ok) else
  match AL.get? s.edges k with
  | some (w, md) => addEdge s (RawEdge.ofKey k') (some w) (some (argMeta md))
  | none => (s, .rej)

def reinsertAll (s : Spec) (n : Node) : List Key → Spec × Out
  | [] => (s, .ok)
  | k :: ks =>
    let r := reinsert s n k
    match r.2 with
    | .rej => r
    | .ok => reinsertAll r.1 n ks

def removeKeys (s : Spec) : List Key → Spec × Out
  | [] => (s, .ok)
  | k :: ks =>
    let r := removeEdge s (RawEdge.ofKey k)
    match r.2 with
    | .rej => r
    | .ok => removeKeys r.1 ks

/-- hyperedges having `n` as a source, then those having it as a target, each in creation order -/
def incidentKeys (s : Spec) (n : Node) : List Key :=
  (AL.keys s.edges).filter (fun k => k.1.contains n) ++ (AL.keys s.edges).filter (fun k => k.2.contains n)

def removeNode (s : Spec) (n : Node) (keep : Bool) : Spec × Out :=
  if !(AL.has s.nodes n) then (s, .rej) else
  let inc := incidentKeys s n
  let r1 := if keep then reinsertAll s n inc else (s, .ok)
  match r1.2 with
  | .rej => r1
  | .ok =>
    let r2 := removeKeys r1.1 inc
    match r2.2 with
    | .rej => r2
    | .ok => ({ r2.1 with nodes := AL.erase r2.1.nodes n }, .ok)

def removeNodes (s : Spec) (keep : Bool) : List Node → Spec × Out
  | [] => (s, .ok)
  | n :: ns =>
    let r := removeNode s n keep
    match r.2 with
    | .rej => r
    | .ok => removeNodes r.1 keep ns

def setWeight (s : Spec) (e : RawEdge) (w : Int) : Spec × Out :=
  if !s.weighted && w != one then (s, .rej) else
  match canonStrict e with
  | none => (s, .rej)
  | some k =>
    match AL.get? s.edges k with
    | some (_, md) => ({ s with edges := AL.set s.edges k (w, md) }, .ok)
    | none => (s, .rej)

def setNodeMeta (s : Spec) (n : Node) (md : Meta) : Spec × Out :=
  if AL.has s.nodes n then ({ s with nodes := AL.set s.nodes n md }, .ok) else (s, .rej)

def updEdgeMeta (s : Spec) (e : RawEdge) (f : Meta → Option Meta) : Spec × Out :=
  match canonStrict e with
  | none => (s, .rej)
  | some k =>
    match AL.get? s.edges k with
    | some (w, md) =>
      match f md with
      | some md' => ({ s with edges := AL.set s.edges k (w, md') }, .ok)
      | none => (s, .rej)
    | none => (s, .rej)

def updNodeMeta (s : Spec) (n : Node) (f : Meta → Option Meta) : Spec × Out :=
  match AL.get? s.nodes n with
  | some md =>
    match f md with
    | some md' => ({ s with nodes := AL.set s.nodes n md' }, .ok)
    | none => (s, .rej)
  | none => (s, .rej)

def delAttr (a : Nat) (md : Meta) : Option Meta := if AL.has md a then some (AL.erase md a) else none

def setAttrHOp (s : Spec) (a v : Nat) : Spec × Out :=
  if isVal s.hmeta then (s, .rej) else ({ s with hmeta := AL.set s.hmeta a v }, .ok)

def applyOp (s : Spec) : Op → Spec × Out
  | .addNode n md => (addNode s n md, .ok)
  | .addNodes ns => (addNodes s ns, .ok)
  | .addEdge e w md => addEdge s e w md
  | .addEdges es ws mds => addEdges s es ws mds
  | .removeEdge e => removeEdge s e
  | .removeEdges es => removeEdges s es
  | .removeNode n keep => removeNode s n keep
  | .removeNodes ns keep => removeNodes s keep ns
  | .setWeight e w => setWeight s e w
  | .setNodeMeta n md => setNodeMeta s n md
  | .setEdgeMeta e md => updEdgeMeta s e (fun _ => some md)
  | .setHMeta md => ({ s with hmeta := md }, .ok)
  | .setAttrH a v => setAttrHOp s a v
  | .setAttrNode n a v => updNodeMeta s n (setAttr a v)
  | .setAttrEdge e a v => updEdgeMeta s e (setAttr a v)
  | .delAttrNode n a => updNodeMeta s n (delAttr a)
  | .delAttrEdge e a => updEdgeMeta s e (delAttr a)
  | .clear => ({ s with nodes := [], edges := [] }, .ok)

def run (s : Spec) : List Op → Spec
  | [] => s
  | o :: os => run (applyOp s o).1 os

def addNodesMeta (s : Spec) : List (Node × Meta) → Spec
  | [] => s
  | (n, md) :: r => addNodesMeta (addNode s n (some md)) r

def ctor (weighted : Bool) (hm : Option Meta) (nm : Option (List (Node × Meta)))
    (es : Option (List RawEdge)) (ws : Option (List Int)) (mds : Option (List Meta)) : Spec × Out :=
  let s0 : Spec := { weighted := weighted, hmeta := ctorHMeta hm weighted }
  let s1 := addNodesMeta s0 (nm.getD [])
  match es with
  | none => (s1, .ok)
  | some el =>
    if weighted && ws.isSome && el.length ≠ (ws.getD []).length then (s1, .rej)
    else addEdges s1 el ws mds

/-! ### queries on the abstract object: every one is a filter / map over the two lists -/

def nodeList (s : Spec) : List Node := AL.keys s.nodes
def keyList (s : Spec) : List Key := AL.keys s.edges
def edgesF (s : Spec) (f : Filt) (upTo : Bool) : Option (List Key) :=
  f.target.map (fun t => (keyList s).filter (passes t upTo))
def edgesMetaF (s : Spec) (f : Filt) (upTo : Bool) : Option (List (Key × Meta)) :=
  f.target.map (fun t => (s.edges.filter (fun p => passes t upTo p.1)).map (fun p => (p.1, p.2.2)))
def weightsDictF (s : Spec) (f : Filt) (upTo : Bool) : Option (List (Key × Int)) :=
  f.target.map (fun t => (s.edges.filter (fun p => passes t upTo p.1)).map (fun p => (p.1, p.2.1)))
def checkEdge (s : Spec) (e : RawEdge) : Option Bool := (canonStrict e).map (fun k => AL.has s.edges k)
def getWeight (s : Spec) (e : RawEdge) : Option Int :=
  (canonStrict e).bind (fun k => (AL.get? s.edges k).map (·.1))
def edgeMeta (s : Spec) (e : RawEdge) : Option Meta :=
  (canonStrict e).bind (fun k => (AL.get? s.edges k).map (·.2))
/-- hyperedges in which `n` is a source -/
def sourceEdges (s : Spec) (n : Node) (f : Filt) : Option (List Key) :=
  if !(AL.has s.nodes n) then none else
  f.target.map (fun t => (keyList s).filter (fun k => k.1.contains n && passes t false k))
/-- hyperedges in which `n` is a target -/
def targetEdges (s : Spec) (n : Node) (f : Filt) : Option (List Key) :=
  if !(AL.has s.nodes n) then none else
  f.target.map (fun t => (keyList s).filter (fun k => k.2.contains n && passes t false k))
def incident (s : Spec) (n : Node) (f : Filt) : Option (List Key) :=
  match sourceEdges s n f, targetEdges s n f with
  | some a, some b => some (a ++ b)
  | _, _ => none
def neighbors (s : Spec) (n : Node) (f : Filt) : Option (List Node) :=
  (incident s n f).map (fun ks => nodeSet ((ks.flatMap (fun k => k.1 ++ k.2)).filter (· != n)))
def degree (s : Spec) (n : Node) (f : Filt) : Option Nat := (incident s n f).map List.length
def inDegree (s : Spec) (n : Node) (f : Filt) : Option Nat := (sourceEdges s n f).map List.length
def outDegree (s : Spec) (n : Node) (f : Filt) : Option Nat := (targetEdges s n f).map List.length
def degreeSeq (s : Spec) (f : Filt) : Option (List (Node × Nat)) :=
  match f.target with
  | none => none
  | some _ => (nodeList s).mapM (fun n => (degree s n f).map (fun d => (n, d)))
def inDegreeSeq (s : Spec) (f : Filt) : Option (List (Node × Nat)) :=
  (nodeList s).mapM (fun n => (inDegree s n f).map (fun d => (n, d)))
def outDegreeSeq (s : Spec) (f : Filt) : Option (List (Node × Nat)) :=
  (nodeList s).mapM (fun n => (outDegree s n f).map (fun d => (n, d)))
def degreeDist (s : Spec) (f : Filt) : Option (List (Nat × Nat)) :=
  (degreeSeq s f).map (fun l => histogram (l.map (·.2)))
def sizes (s : Spec) : List Nat := (keyList s).map esize
def nodeMeta (s : Spec) (n : Node) : Option Meta := AL.get? s.nodes n
def isolatedNodes (s : Spec) (f : Filt) : Option (List Node) :=
  match f.target with
  | none => none
  | some _ =>
    ((nodeList s).mapM (fun n => (neighbors s n f).map (fun nb => (n, nb.isEmpty)))).map
      (fun l => (l.filter (·.2)).map (·.1))
def isIsolated (s : Spec) (n : Node) (f : Filt) : Option Bool :=
  match f.target with
  | none => none
  | some _ => (neighbors s n f).map List.isEmpty

end Spec

/-- several abstract objects: slots, constructor, copy (mirror of `step`) -/
def Spec.step (st : List (Nat × Spec)) : Cmd → List (Nat × Spec) × Out
  | .new slot w hm nm es ws mds =>
    match Spec.ctor w hm nm es ws mds with
    | (s, .ok) => (AL.set st slot s, .ok)
    | (_, .rej) => (st, .rej)
  | .copy a b =>
    match AL.get? st a with
    | some s => (AL.set st b s, .ok)
    | none => (st, .rej)
  | .op slot o =>
    match AL.get? st slot with
    | some s => let r := Spec.applyOp s o; (AL.set st slot r.1, r.2)
    | none => (st, .rej)

/-- abstraction: forget ids and adjacency -/
def abs (s : Store) : Spec :=
  { weighted := s.weighted
    nodes := (AL.keys s.adjS).map (fun n => (n, (AL.get? s.nmeta n).getD []))
    edges := s.edgeList.map (fun p => (p.1, ((AL.get? s.weights p.2).getD 0, (AL.get? s.emeta p.2).getD [])))
    hmeta := s.hmeta }

end C02
