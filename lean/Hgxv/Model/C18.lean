/-! Model of `hypergraphx/dynamics/randwalk.py` and `hypergraphx/dynamics/contagion.py` (core Lean only).

A hypergraph is given by `N` (nodes are `0..N-1`, as `transition_matrix` demands by indexing
`T[l[i], l[j]]`) and the list `es` of its hyperedges (`HG.get_edges()`).  Numbers are `Rat`.
Random draws are explicit: `np.random.choice` results are a list of node indices,
`np.random.random()` results are a stream `f : Nat → Rat` read at an increasing position. -/
namespace C18

abbrev Edge := List Nat

/-! ## vocabulary of the theorem statements -/

/-- hyperedges have distinct members below `N` (what `Hypergraph.get_edges()` returns for nodes `0..N-1`) -/
def Valid (es : List Edge) (N : Nat) : Prop := ∀ e ∈ es, e.Nodup ∧ ∀ v ∈ e, v < N

/-- `R` holds between every element and its successor -/
def Adj {α} (R : α → α → Prop) (l : List α) : Prop :=
  ∀ t a b, l[t]? = some a → l[t + 1]? = some b → R a b

/-- the contract of `np.random.random()` -/
def UnitDraws (f : Nat → Rat) : Prop := ∀ n, 0 ≤ f n ∧ f n < 1

/-! ## `transition_matrix` -/

/-- the index pairs `(l[i], l[j])`, `i < j`, in the order of the double loop -/
def pairs : List Nat → List (Nat × Nat)
  | [] => []
  | a :: r => r.map (fun b => (a, b)) ++ pairs r

/-- what the double loop over one hyperedge `l` adds to `T[i][j]`:
`T[l[a], l[b]] += len(l) - 1` and `T[l[b], l[a]] += len(l) - 1` for every `a < b` -/
def contrib (l : Edge) (i j : Nat) : Nat :=
  ((pairs l).count (i, j) + (pairs l).count (j, i)) * (l.length - 1)

/-- `T[i][j]` after the loop over all hyperedges (before normalisation) -/
def tEntry (es : List Edge) (i j : Nat) : Nat := (es.map (fun l => contrib l i j)).sum

/-- `Σ_{i < N} f i` -/
def sumTo (N : Nat) (f : Nat → Rat) : Rat := ((List.range N).map f).sum

/-- `T.sum(axis=1)[i]` -/
def rowSum (es : List Edge) (N i : Nat) : Nat := ((List.range N).map (tEntry es i)).sum

/-- `K[i][j] = T[i][j] / T.sum(axis=1)[i]` (meaningful when the row sum is positive, see `defined`) -/
def kEntry (es : List Edge) (N i j : Nat) : Rat := (tEntry es i j : Rat) / (rowSum es N i : Rat)

/-- two nodes lie in a common hyperedge -/
def share (es : List Edge) (i j : Nat) : Bool := es.any (fun e => e.contains i && e.contains j)

/-- one round of the reachability closure inside `0..N-1` -/
def grow (es : List Edge) (N : Nat) (S : List Nat) : List Nat :=
  (List.range N).filter (fun j => S.contains j || S.any (fun i => share es i j))

def growN (es : List Edge) (N : Nat) : Nat → List Nat → List Nat
  | 0, S => S
  | k + 1, S => growN es N k (grow es N S)

/-- `HG.is_connected()`: every node is reached from node `0` (N rounds suffice) -/
def connectedB (es : List Edge) (N : Nat) : Bool :=
  (List.range N).all (fun i => (growN es N N [0]).contains i)

/-- `v` is joined to `0` by a chain of nodes `< N`, consecutive ones sharing a hyperedge -/
inductive Reach (es : List Edge) (N : Nat) : Nat → Prop
  | zero : Reach es N 0
  | step (a b : Nat) : Reach es N a → b < N → share es a b = true → Reach es N b

/-- the hypergraph on nodes `0..N-1` is connected -/
def Connected (es : List Edge) (N : Nat) : Prop := ∀ v, v < N → Reach es N v

/-- every row sum is positive, i.e. `T / T.sum(axis=1)` contains no `nan` -/
def rowsPositive (es : List Edge) (N : Nat) : Bool := (List.range N).all (fun i => 0 < rowSum es N i)

/-- outcome of `transition_matrix`: `none` = `AssertionError` (not connected) -/
def transitionMatrix (es : List Edge) (N : Nat) : Option (List (List Rat)) :=
  if connectedB es N then
    some ((List.range N).map (fun i => (List.range N).map (fun j => kEntry es N i j)))
  else none

/-! ## closed forms named by the property -/

/-- `Σ_{e ∋ i, j} (|e| − 1)` -/
def shared (es : List Edge) (i j : Nat) : Nat :=
  ((es.filter (fun e => e.contains i && e.contains j)).map (fun e => e.length - 1)).sum

/-- `d_i = Σ_{e ∋ i} (|e| − 1)²` -/
def deg2 (es : List Edge) (i : Nat) : Nat :=
  ((es.filter (fun e => e.contains i)).map (fun e => (e.length - 1) * (e.length - 1))).sum

/-- `π_i = d_i / Σ_k d_k` with `d` the row sums of `T` -/
def piEntry (es : List Edge) (N i : Nat) : Rat :=
  (rowSum es N i : Rat) / sumTo N (fun k => (rowSum es N k : Rat))

/-! ## `RW_stationary_state` (repaired): the system handed to `np.linalg.solve` -/

/-- `x` solves `A x = b` where `A = I − Kᵀ` with its last row replaced by ones and `b = e_{N-1}`;
`K` is any matrix given as a function -/
def SolvesRepaired (K : Nat → Nat → Rat) (N : Nat) (x : Nat → Rat) : Prop :=
  (∀ i, i + 1 < N → x i - sumTo N (fun j => K j i * x j) = 0) ∧ sumTo N x = 1

/-- `x` solves the system of the unrepaired routine, `(I − Kᵀ) x = 𝟙` -/
def SolvesOriginal (K : Nat → Nat → Rat) (N : Nat) (x : Nat → Rat) : Prop :=
  ∀ i, i < N → x i - sumTo N (fun j => K j i * x j) = 1

/-- the value returned by the repaired routine when the solver is exact: `x / Σx` with `x = π` -/
def stationary (es : List Edge) (N : Nat) : Option (List Rat) :=
  if connectedB es N then some ((List.range N).map (piEntry es N)) else none

/-! ## `random_walk_density` -/

/-- a numpy vector read as a function of the index -/
def vecOf (l : List Rat) : Nat → Rat := fun i => l.getD i 0

/-- `(s @ K)[j]` -/
def densityStep (es : List Edge) (N : Nat) (s : Nat → Rat) : Nat → Rat :=
  fun j => sumTo N (fun i => s i * kEntry es N i j)

/-- `s @ K` as a vector of length `N` -/
def densityNext (es : List Edge) (N : Nat) (v : List Rat) : List Rat :=
  (List.range N).map (densityStep es N (vecOf v))

/-- `density_list`: `for t in range(time): s = s @ K; density_list.append(s)` -/
def densityList (es : List Edge) (N : Nat) : Nat → List Rat → List (List Rat)
  | 0, v => [v]
  | t + 1, v => v :: densityList es N t (densityNext es N v)

/-! ## `random_walk` -/

/-- the contract of `np.random.choice(N, p=K[cur, :])`: an index of positive probability -/
def validChoice (es : List Edge) (N cur c : Nat) : Bool := decide (c < N) && decide (0 < kEntry es N cur c)

/-- `nodes` after consuming the recorded choices; `none` when a choice breaks the contract -/
def walk (es : List Edge) (N : Nat) : Nat → List Nat → Option (List Nat)
  | cur, [] => some [cur]
  | cur, c :: cs => if validChoice es N cur c then (walk es N c cs).map (cur :: ·) else none

/-! ## `simplicial_contagion` -/

structure Rates where
  beta : Rat
  betaD : Rat
  mu : Rat

/-- `I_new[v] = b` -/
def setI (I : Nat → Bool) (v : Nat) (b : Bool) : Nat → Bool := fun u => if u = v then b else I u

/-- `for x in xs: if cond(x) and np.random.random() < rate: hit; break` — the draw is only made
when the condition holds (`and` short-circuits); returns (hit?, new stream position) -/
def loopHits (f : Nat → Rat) (rate : Rat) : List Bool → Nat → Bool × Nat
  | [], p => (false, p)
  | c :: cs, p =>
    if c then (if f p < rate then (true, p + 1) else loopHits f rate cs (p + 1))
    else loopHits f rate cs p

/-- `hypergraph.get_neighbors(v, order=1)`: a set, listed here in the order of `nodes` -/
def pairNbrs (es : List Edge) (nodes : List Nat) (v : Nat) : List Nat :=
  nodes.filter (fun u => u != v && es.any (fun e => e.length == 2 && e.contains v && e.contains u))

/-- `hypergraph.get_incident_edges(v, order=2)` -/
def triplets (es : List Edge) (v : Nat) : List Edge :=
  es.filter (fun e => e.length == 3 && e.contains v)

/-- `I_old[neigh1] == 1 and I_old[neigh2] == 1` for the members of `e` other than `v` -/
def triHit (I : Nat → Bool) (v : Nat) (e : Edge) : Bool := (e.filter (· != v)).all I

/-- new value of a susceptible node and new stream position: pairwise attempts, then (if still
susceptible) triadic attempts -/
def infect (es : List Edge) (nodes : List Nat) (r : Rates) (f : Nat → Rat) (I : Nat → Bool)
    (v p : Nat) : Bool × Nat :=
  let a := loopHits f r.beta ((pairNbrs es nodes v).map I) p
  if a.1 then (true, a.2) else loopHits f r.betaD ((triplets es v).map (triHit I v)) a.2

/-- new value of an infected node: `elif np.random.random() < mu: I_new[node] = 0` -/
def recover (r : Rates) (f : Nat → Rat) (p : Nat) : Bool × Nat := (!(decide (f p < r.mu)), p + 1)

/-- body of `for node in nodes:`; state = (`I_new`, stream position), `Iold` is only read -/
def nodeStep (es : List Edge) (nodes : List Nat) (r : Rates) (f : Nat → Rat) (Iold : Nat → Bool)
    (st : (Nat → Bool) × Nat) (v : Nat) : (Nat → Bool) × Nat :=
  if Iold v = false then
    let a := loopHits f r.beta ((pairNbrs es nodes v).map Iold) st.2
    let I1 := if a.1 then setI st.1 v true else st.1
    if I1 v then (I1, a.2)   -- `if I_new[node] == 1: continue`
    else
      let b := loopHits f r.betaD ((triplets es v).map (triHit Iold v)) a.2
      (if b.1 then setI I1 v true else I1, b.2)
  else if f st.2 < r.mu then (setI st.1 v false, st.2 + 1) else (st.1, st.2 + 1)

/-- one sweep over the nodes: `I_new = I_old.copy(); for node in nodes: ...; I_old = I_new.copy()` -/
def step (es : List Edge) (nodes : List Nat) (r : Rates) (f : Nat → Rat)
    (I : Nat → Bool) (p : Nat) : (Nat → Bool) × Nat :=
  nodes.foldl (nodeStep es nodes r f I) (I, p)

/-- `sum(I.values())` over the keys of `I_0` -/
def infected (keys : List Nat) (I : Nat → Bool) : Nat := (keys.filter I).length

/-- the states after sweeps `1..fuel` (`while Infected > 0 and t < T`); once nobody is infected the
state is repeated (the remaining entries of `numberInf` keep their initial `0`) -/
def runStates (es : List Edge) (nodes keys : List Nat) (r : Rates) (f : Nat → Rat) :
    Nat → (Nat → Bool) → Nat → List ((Nat → Bool) × Nat)
  | 0, _, _ => []
  | n + 1, I, p =>
    if infected keys I = 0 then List.replicate (n + 1) (I, p)
    else
      let s := step es nodes r f I p
      s :: runStates es nodes keys r f n s.1 s.2

/-- `numberInf` (length `T`, `T ≥ 1`) before the division by `N` -/
def counts (es : List Edge) (nodes keys : List Nat) (r : Rates) (f : Nat → Rat)
    (I0 : Nat → Bool) (T : Nat) : List Nat :=
  infected keys I0 :: (runStates es nodes keys r f (T - 1) I0 0).map (fun s => infected keys s.1)

/-- the returned array `numberInf / N`, `N = len(I_0)` -/
def fractions (es : List Edge) (nodes keys : List Nat) (r : Rates) (f : Nat → Rat)
    (I0 : Nat → Bool) (T : Nat) : List Rat :=
  (counts es nodes keys r f I0 T).map (fun (c : Nat) => (c : Rat) / (keys.length : Rat))

/-- number of `np.random.random()` calls made by the whole run -/
def consumed (es : List Edge) (nodes keys : List Nat) (r : Rates) (f : Nat → Rat)
    (I0 : Nat → Bool) (T : Nat) : Nat :=
  match (runStates es nodes keys r f (T - 1) I0 0).getLast? with
  | some s => s.2
  | none => 0

/-- the infected keys of `I_old` after sweeps `1 .. T-1` (what `I_old = I_new.copy()` holds at the end of each
sweep; repeated once nobody is infected) -/
def infectedSets (es : List Edge) (nodes keys : List Nat) (r : Rates) (f : Nat → Rat)
    (I0 : Nat → Bool) (T : Nat) : List (List Nat) :=
  (runStates es nodes keys r f (T - 1) I0 0).map (fun s => keys.filter s.1)

/-- the deterministic spreading named by the property: a susceptible node becomes infected when
`β = 1` and a pairwise neighbour is infected, or `β_D = 1` and both other members of a 3-node
hyperedge are infected; an infected node recovers iff `μ = 1`; nodes outside `nodes` keep their
value; everything is read from the old state -/
def spread (es : List Edge) (nodes : List Nat) (r : Rates) (I : Nat → Bool) : Nat → Bool :=
  fun v =>
    if nodes.contains v then
      if I v = false then
        (decide (r.beta = 1) && (pairNbrs es nodes v).any I)
          || (decide (r.betaD = 1) && (triplets es v).any (triHit I v))
      else decide (r.mu ≠ 1)
    else I v

/-- counts of infected nodes when the closed form `spread` is iterated with the stopping rule of the
routine (`while Infected > 0 and t < T`) -/
def spreadCounts (es : List Edge) (nodes keys : List Nat) (r : Rates) : Nat → (Nat → Bool) → List Nat
  | 0, _ => []
  | n + 1, I =>
    if infected keys I = 0 then List.replicate (n + 1) 0
    else infected keys (spread es nodes r I) :: spreadCounts es nodes keys r n (spread es nodes r I)

/-! ## extension round: matrix powers, the inverse-cdf sampler, the `np.isclose` assertion -/

/-- an `N × N` table `f i j` as a list of rows (a dense numpy matrix) -/
def table (N : Nat) (f : Nat → Nat → Rat) : List (List Rat) :=
  (List.range N).map (fun i => (List.range N).map (fun j => f i j))

/-- `A[i][j]` (`0` outside the table) -/
def at2 (A : List (List Rat)) (i j : Nat) : Rat := (A.getD i []).getD j 0

/-- the dense matrix `K` -/
def kMat (es : List Edge) (N : Nat) : List (List Rat) := table N (kEntry es N)

/-- `A @ B` for `N × N` tables -/
def matMul (N : Nat) (A B : List (List Rat)) : List (List Rat) :=
  table N (fun i j => sumTo N (fun k => at2 A i k * at2 B k j))

/-- `K ** t` (`np.linalg.matrix_power(K, t)`): `K⁰ = I`, `K^(t+1) = K @ K^t` -/
def kPowMat (es : List Edge) (N : Nat) : Nat → List (List Rat)
  | 0 => table N (fun i j => if i = j then 1 else 0)
  | t + 1 => matMul N (kMat es N) (kPowMat es N t)

/-- entry `(i, j)` of `K ** t` -/
def kPow (es : List Edge) (N t i j : Nat) : Rat := at2 (kPowMat es N t) i j

/-- `v @ P` for a vector and an `N × N` table -/
def vecMat (N : Nat) (v : List Rat) (P : List (List Rat)) : List Rat :=
  (List.range N).map (fun j => sumTo N (fun i => vecOf v i * at2 P i j))

/-- `s @ (K ** t)`: the density after `t` steps in closed form -/
def densityAt (es : List Edge) (N t : Nat) (v : List Rat) : List Rat := vecMat N v (kPowMat es N t)

/-- `np.isclose(x, 1)` with the default tolerances: `|x − 1| ≤ atol + rtol·|1|`, `atol = 1e-8`, `rtol = 1e-5` -/
def closeToOne (x : Rat) : Bool :=
  decide (x - 1 ≤ 1001 / 100000000) && decide (1 - x ≤ 1001 / 100000000)

/-- `random_walk_density(HG, s, time)` with both of its assertions: `none` = `AssertionError`
(`np.isclose(np.sum(s), 1)` fails, or the hypergraph is not connected) -/
def randomWalkDensity (es : List Edge) (N : Nat) (s : List Rat) (time : Nat) : Option (List (List Rat)) :=
  if closeToOne s.sum then
    (if connectedB es N then some (densityList es N time s) else none)
  else none

/-- `cdf.searchsorted(u, side='right')` for `cdf = p.cumsum()`: the first index `j` (from `j`, with `acc = cdf[j-1]`)
whose cumulative sum exceeds `u`; `n` = number of entries left (past the end: the length, as numpy does) -/
def chooseFrom (p : Nat → Rat) (u : Rat) : Nat → Nat → Rat → Nat
  | 0, j, _ => j
  | n + 1, j, acc => if u < acc + p j then j else chooseFrom p u n (j + 1) (acc + p j)

/-- `np.random.choice(N, p=p)` as a function of its single uniform draw `u = random_sample()` (legacy
`RandomState.choice`: `cdf = p.cumsum(); cdf /= cdf[-1]; idx = cdf.searchsorted(u, side='right')`; the division is
by `1` for a probability vector) -/
def chooseIdx (p : Nat → Rat) (N : Nat) (u : Rat) : Nat := chooseFrom p u N 0 0

/-- `random_walk` as a function of the uniform draws behind `np.random.choice`: one draw per step -/
def walkU (es : List Edge) (N : Nat) : Nat → List Rat → List Nat
  | cur, [] => [cur]
  | cur, u :: us => cur :: walkU es N (chooseIdx (kEntry es N cur) N u) us

end C18
