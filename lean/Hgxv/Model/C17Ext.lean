import Hgxv.Model.C17
/-! Extension of the C17 model (core Lean only): the parts of `HypergraphMT.fit` / `HySC.fit` that used to be
parameters of `Model/C17.lean` and are pure functions of the raw random draws / of the hypergraph.

* `_randomize_u0`, `_randomize_w0`, `_add_noise_input` and the HySC branch of `_initialize_u_w`: the initial `u0`, `w0`
  handed to `initState` are now computed from the RAW outputs of `prng.random_sample` (`initFromDraws`);
* `HySC._extract_laplacian` (binary and `weighted_L`), with the square root as the only parameter (`sq`);
  `HySC._init_data`: node degrees.
Same conventions as `Model/C17.lean`: generic number type, index style. -/
namespace C17

section
variable {α : Type} [Add α] [Mul α] [Sub α] [Div α] [Zero α] [One α] [LT α] [DecidableLT α]
variable (c : Cfg α)

/-! ### initial values from raw draws -/

/-- `_randomize_u0`: `u0 = random_sample((N, K))`, rows with a positive sum divided by it -/
def randU0 (du : Mat α) : Mat α :=
  tab2 c.N c.K (fun i k =>
    if 0 < sumR c.K (fun k' => at2 du i k') then at2 du i k / sumR c.K (fun k' => at2 du i k') else at2 du i k)

def maxOf (a b : α) : α := if a < b then b else a
/-- `np.max(par0)` over the `n × m` matrix (`0` for an empty one, where numpy raises) -/
def matMax (n m : Nat) (X : Mat α) : α :=
  match (tab2 n m (fun i k => at2 X i k)).flatten with
  | [] => 0
  | x :: xs => xs.foldl maxOf x

/-- `_add_noise_input` (and the HySC branch of `_initialize_u_w`):
`par0 + max_entry * noise_input_par * random_sample(par0.shape)` -/
def addNoise (n m : Nat) (noise : α) (X dr : Mat α) : Mat α :=
  tab2 n m (fun i k => at2 X i k + matMax n m X * noise * at2 dr i k)

/-- some hyperedge has size `d + 2` -/
def sizePresent (d : Nat) : Bool := c.edges.any (fun e => e.length == d + 2)
/-- `_randomize_w0`: `random_sample((D-1, K))`, the rows of the sizes that do not occur set to 0 -/
def randW0 (dw : Mat α) : Mat α :=
  tab2 (c.D - 1) c.K (fun d k => if sizePresent c d then at2 dw d k else 0)

/-- `u0_current_real_t0`: around `X` (`some X`: the HySC solution in realisation 0 with `baseline_r0`, else the input of
`initialize_u0`), else random -/
def u0Of (hysc : Option (Mat α)) (noise : α) (du : Mat α) : Mat α :=
  match hysc with
  | some X => addNoise c.N c.K noise X du
  | none => randU0 c du

/-- the initial `w`: around the input `W` of `initialize_w0` (`some W`), else random -/
def w0Of (winit : Option (Mat α)) (noise : α) (dw : Mat α) : Mat α :=
  match winit with
  | some W => addNoise (c.D - 1) c.K noise W dw
  | none => randW0 c dw

/-- the state after the whole initialisation of a realisation, from the raw draws `uk` (`random_sample(K)`),
`du` (`random_sample((N, K))`), `dw` (`random_sample((D-1, K))`) in the order the code draws them; `hysc` = the matrix the
start of `u` is placed around (the HySC solution in realisation 0 with `baseline_r0`, else the input of `initialize_u0`),
`winit` = the input of `initialize_w0` -/
def initFromDraws (r0 : Bool) (hysc winit : Option (Mat α)) (noise : α) (uk : List α) (du dw : Mat α) (lams : List α) : St α :=
  initState c r0 uk (u0Of c hysc noise du) (w0Of c winit noise dw) lams

/-! ### `_update_em` with the options `fix_w`, `fix_communities` -/

/-- first half of `_update_em`: `if not self.fix_w: _update_w(); _update_rho()` -/
def wHalf (fixW : Bool) (s : St α) : St α :=
  if fixW then s
  else { s with w := wUpdate c s.rho s.psi, rho := rhoUpdate c s.u (wUpdate c s.rho s.psi) }
/-- second half: `if not self.fix_communities: _update_u(); _update_rho()` (no permutation is drawn when it is skipped) -/
def uHalf (fixU : Bool) (s : St α) (perm : List Nat) : St α :=
  if fixU then s
  else { uSweep c s perm with rho := rhoUpdate c (uSweep c s perm).u (uSweep c s perm).w }
/-- `_update_em` for any setting of the two flags; `emSweepFix false false = emSweep` -/
def emSweepFix (fixW fixU : Bool) (s : St α) (perm : List Nat) : St α := uHalf c fixU (wHalf c fixW s) perm

/-! ### `HySC._init_data`, `HySC._extract_laplacian` -/

/-- `node_degree[i]`: number of hyperedges containing node `i` (row sum of the binary incidence matrix) -/
def degN (i : Nat) : Nat := (c.edges.filter (fun e => e.contains i)).length
/-- entry `H[i, e]` of the incidence matrix used (`weighted_L`: the hyperedge weight, else 1) -/
def hEnt (weighted : Bool) (i e : Nat) : α :=
  if (c.edge e).contains i then (if weighted then c.wt e else 1) else 0
/-- `1 / hye_size[e]` with the code's guard `where(size == 0, 1, size)` -/
def invSize (e : Nat) : α := 1 / ofN (if (c.edge e).length = 0 then 1 else (c.edge e).length)
/-- `(H @ invDE @ H.T)[i, j]` -/
def lapM (weighted : Bool) (i j : Nat) : α :=
  sumR c.E (fun e => hEnt c weighted i e * invSize c e * hEnt c weighted j e)
/-- diagonal of `invDV2`: `sqrt(1 / degree)`, `0` for an isolated node -/
def invS (sq : α → α) (i : Nat) : α := if degN c i = 0 then 0 else sq (1 / ofN (degN c i))
/-- `L = I - invDV2 @ H @ invDE @ H.T @ invDV2` -/
def lap (sq : α → α) (weighted : Bool) : Mat α :=
  tab2 c.N c.N (fun i j => (if i = j then 1 else 0) - invS c sq i * lapM c weighted i j * invS c sq j)

end
end C17
