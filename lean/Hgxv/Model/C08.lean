/-! # C08 model - degrees and connected components (core Lean only)

Input of every function: what `get_nodes()` / `get_edges()` of the containers return, i.e. a node list and a
list of distinct canonical hyperedges (the stateful container itself is C01..C04).  Python function <-> Lean:

* `measures/degree.py`   `degree` / `degree_sequence` / `degree_distribution`  <-> `degree?` / `degreeSeq` / `degreeDist`
  (generic over a key type `κ` with `members : κ → List Nat`: Hypergraph `κ = List Nat`, Temporal `(time, nodes)`,
  Multiplex `(nodes, layer)`, Directed `(sources, targets)` with `dirDeg` = source-incident + target-incident)
* `Hypergraph.get_incident_edges` / `get_neighbors` (order/size filter)          <-> `incident` / `neighbors`
* `utils/visits.py _bfs` (queue + visited, `max_depth=None`)                       <-> `bfs` (well-founded, no fuel) / `bfsFrom`
* `utils/cc.py connected_components` loop                                          <-> `compLoop` / `components`
* `utils/cc.py` wrappers, each with the filter it is given                         <-> `isConnected`, `numComponents`,
  `nodeComponent`, `largestComponent`, `largestComponentSize`, `isolatedNodes`, `isIsolated?`
-/
namespace C08

/-- the `order=` / `size=` keyword pair (both given is rejected before any of the code below runs) -/
inductive Filt where
  | none
  | size (s : Int)
  | order (o : Int)
deriving Repr, DecidableEq

/-- `len(edge) - 1 == order`, with `order = size - 1` when a size is given (`get_incident_edges`) -/
def passes : Filt → Nat → Bool
  | .none, _ => true
  | .size s, len => (len : Int) - 1 == s - 1
  | .order o, len => (len : Int) - 1 == o

/-- `degree_sequence` / `degree_distribution`: `if size is not None: order = size - 1` -/
def toOrder : Filt → Filt
  | .size s => .order (s - 1)
  | f => f

/-! ## degrees, generic over the key type -/
section Generic
variable {κ : Type} (members : κ → List Nat)

/-- `get_incident_edges(node, order|size)`: the keys containing the node that pass the filter -/
def incidentG (keys : List κ) (n : Nat) (f : Filt) : List κ :=
  keys.filter (fun k => decide (n ∈ members k) && passes f (members k).length)

/-- `len(hg.get_incident_edges(node, ...))` -/
def degG (keys : List κ) (n : Nat) (f : Filt) : Nat := (incidentG members keys n f).length

/-- `degree(hg, node, order, size)`; a node that is not in the hypergraph is rejected (ValueError) -/
def degreeG? (nodes : List Nat) (keys : List κ) (n : Nat) (f : Filt) : Option Nat :=
  if n ∈ nodes then some (degG members keys n f) else none

/-- `degree_sequence`: `{node: hg.degree(node, order=order) for node in hg.get_nodes()}` -/
def degreeSeqG (nodes : List Nat) (keys : List κ) (f : Filt) : List (Nat × Nat) :=
  nodes.map (fun n => (n, degG members keys n (toOrder f)))

/-- `if deg not in degree_dist: degree_dist[deg] = 0` ; `degree_dist[deg] += 1` on an insertion-ordered dict -/
def bump (d : Nat) : List (Nat × Nat) → List (Nat × Nat)
  | [] => [(d, 1)]
  | (k, c) :: t => if k = d then (k, c + 1) :: t else (k, c) :: bump d t

/-- `degree_distribution`: histogram of the degree sequence -/
def degreeDistG (nodes : List Nat) (keys : List κ) (f : Filt) : List (Nat × Nat) :=
  (degreeSeqG members nodes keys (toOrder f)).foldl (fun acc p => bump p.2 acc) []

end Generic

/-- dict lookup in the histogram -/
def lookup (d : Nat) : List (Nat × Nat) → Option Nat
  | [] => none
  | (k, c) :: t => if k = d then some c else lookup d t

/-- members of a directed hyperedge -/
def dirMembers (k : List Nat × List Nat) : List Nat := k.1 ++ k.2

/-- `DirectedHypergraph.get_incident_edges` = `get_source_edges + get_target_edges`, each filtered by the size
of the whole hyperedge; the degree is the length of that concatenation -/
def dirDeg (keys : List (List Nat × List Nat)) (n : Nat) (f : Filt) : Nat :=
  (keys.filter (fun k => decide (n ∈ k.1) && passes f (k.1.length + k.2.length))).length
  + (keys.filter (fun k => decide (n ∈ k.2) && passes f (k.1.length + k.2.length))).length

def dirDegreeSeq (nodes : List Nat) (keys : List (List Nat × List Nat)) (f : Filt) : List (Nat × Nat) :=
  nodes.map (fun n => (n, dirDeg keys n (toOrder f)))

def dirDegreeDist (nodes : List Nat) (keys : List (List Nat × List Nat)) (f : Filt) : List (Nat × Nat) :=
  (dirDegreeSeq nodes keys (toOrder f)).foldl (fun acc p => bump p.2 acc) []

/-! ## Hypergraph: incident hyperedges, neighbours -/

abbrev Edge := List Nat

def incident (es : List Edge) (n : Nat) (f : Filt) : List Edge := incidentG id es n f
def deg (es : List Edge) (n : Nat) (f : Filt) : Nat := degG id es n f
def degree? (nodes : List Nat) (es : List Edge) (n : Nat) (f : Filt) : Option Nat := degreeG? id nodes es n f
def degreeSeq (nodes : List Nat) (es : List Edge) (f : Filt) : List (Nat × Nat) := degreeSeqG id nodes es f
def degreeDist (nodes : List Nat) (es : List Edge) (f : Filt) : List (Nat × Nat) := degreeDistG id nodes es f

/-- `set.add` on a duplicate-free list -/
def addNew (acc : List Nat) (x : Nat) : List Nat := if x ∈ acc then acc else acc ++ [x]

/-- `neigh.update(edge)` -/
def addAll (acc : List Nat) (e : Edge) : List Nat := e.foldl addNew acc

/-- `get_neighbors(node, order|size)`: union of the filtered incident hyperedges, the node itself removed -/
def neighbors (es : List Edge) (f : Filt) (n : Nat) : List Nat :=
  ((incident es n f).foldl addAll []).filter (fun x => x != n)

/-! ## breadth-first search (`_bfs`, `max_depth=None`) -/

theorem filter_length_le {α} (p q : α → Bool) (l : List α) (h : ∀ a, q a = true → p a = true) :
    (l.filter q).length ≤ (l.filter p).length := by
  induction l with
  | nil => simp
  | cons a t ih =>
    simp only [List.filter_cons]
    cases hq : q a <;> cases hp : p a <;> simp <;> try omega
    have := h a hq; rw [hp] at this; cases this

theorem filter_length_lt {α} (p q : α → Bool) (l : List α) (h : ∀ a, q a = true → p a = true)
    (x : α) (hx : x ∈ l) (hpx : p x = true) (hqx : q x = false) :
    (l.filter q).length < (l.filter p).length := by
  induction l with
  | nil => cases hx
  | cons a t ih =>
    simp only [List.filter_cons]
    cases hx with
    | head => rw [hpx, hqx]; simp; have := filter_length_le p q t h; omega
    | tail _ hx' =>
      have := ih hx'
      cases hq : q a <;> cases hp : p a <;> simp <;> try omega
      have := h a hq; rw [hp] at this; cases this

/-- number of nodes of the universe not yet visited (termination measure only) -/
def unvisited (univ visited : List Nat) : Nat := (univ.filter (fun n => decide (n ∉ visited))).length

theorem unvisited_cons_of_not_mem (univ visited : List Nat) (x : Nat) (hx : x ∉ univ) :
    unvisited univ (x :: visited) = unvisited univ visited := by
  unfold unvisited
  congr 1
  apply List.filter_congr
  intro a ha
  have : a ≠ x := fun h => hx (h ▸ ha)
  simp [this]

/-- The `while queue:` loop of `_bfs`: pop the head; if it is new, mark it and append its not yet visited
neighbours.  `univ`/`h` say that only finitely many nodes have neighbours - needed for termination only
(measure: (unvisited nodes of `univ`, queue length), lexicographic); no fuel, no extra branch. -/
def bfs (univ : List Nat) (nbrs : Nat → List Nat) (h : ∀ x, x ∉ univ → nbrs x = []) :
    (queue : List Nat) → (visited : List Nat) → List Nat
  | [], visited => visited
  | x :: q, visited =>
    if x ∈ visited then bfs univ nbrs h q visited
    else bfs univ nbrs h (q ++ (nbrs x).filter (fun n => decide (n ∉ x :: visited))) (x :: visited)
termination_by queue visited => (unvisited univ visited, queue.length)
decreasing_by
  · exact Prod.Lex.right _ (by simp)
  · rename_i hx
    by_cases hu : x ∈ univ
    · apply Prod.Lex.left
      unfold unvisited
      apply filter_length_lt _ _ univ _ x hu
      · simpa using hx
      · simp
      · intro a; simp
    · rw [h x hu, unvisited_cons_of_not_mem univ visited x hu]
      exact Prod.Lex.right _ (by simp)

theorem foldl_addNew_mem (e : Edge) : ∀ (acc : List Nat) (v : Nat), v ∈ e.foldl addNew acc ↔ v ∈ acc ∨ v ∈ e := by
  induction e with
  | nil => intro acc v; simp
  | cons a t ih =>
    intro acc v
    simp only [List.foldl_cons, ih, addNew]
    by_cases ha : a ∈ acc
    · simp only [ha, if_true, List.mem_cons]
      constructor
      · rintro (h | h)
        · exact Or.inl h
        · exact Or.inr (Or.inr h)
      · rintro (h | h | h)
        · exact Or.inl h
        · exact Or.inl (h ▸ ha)
        · exact Or.inr h
    · simp only [ha, if_false, List.mem_append, List.mem_cons, List.not_mem_nil, or_false]
      constructor
      · rintro ((h | h) | h)
        · exact Or.inl h
        · exact Or.inr (Or.inl h)
        · exact Or.inr (Or.inr h)
      · rintro (h | h | h)
        · exact Or.inl (Or.inl h)
        · exact Or.inl (Or.inr h)
        · exact Or.inr h

theorem foldl_addAll_mem (l : List Edge) : ∀ (acc : List Nat) (v : Nat),
    v ∈ l.foldl addAll acc ↔ v ∈ acc ∨ ∃ e ∈ l, v ∈ e := by
  induction l with
  | nil => intro acc v; simp
  | cons a t ih =>
    intro acc v
    simp only [List.foldl_cons, ih, addAll, foldl_addNew_mem, List.mem_cons]
    constructor
    · rintro ((h | h) | ⟨e, he, hv⟩)
      · exact Or.inl h
      · exact Or.inr ⟨a, Or.inl rfl, h⟩
      · exact Or.inr ⟨e, Or.inr he, hv⟩
    · rintro (h | ⟨e, he | he, hv⟩)
      · exact Or.inl (Or.inl h)
      · exact Or.inl (Or.inr (he ▸ hv))
      · exact Or.inr ⟨e, he, hv⟩

/-- characterisation of `get_neighbors` -/
theorem mem_neighbors (es : List Edge) (f : Filt) (n v : Nat) :
    v ∈ neighbors es f n ↔ v ≠ n ∧ ∃ e ∈ es, passes f e.length = true ∧ n ∈ e ∧ v ∈ e := by
  simp only [neighbors, List.mem_filter, foldl_addAll_mem, incident, incidentG, id, List.not_mem_nil, false_or,
    Bool.and_eq_true, decide_eq_true_eq, bne_iff_ne, ne_eq]
  constructor
  · rintro ⟨⟨e, ⟨he, hn, hp⟩, hv⟩, hne⟩
    exact ⟨hne, e, he, hp, hn, hv⟩
  · rintro ⟨hne, e, he, hp, hn, hv⟩
    exact ⟨⟨e, ⟨he, hn, hp⟩, hv⟩, hne⟩

theorem neighbors_nil_of_not_mem (es : List Edge) (f : Filt) (x : Nat) (hx : x ∉ es.flatten) :
    neighbors es f x = [] := by
  apply List.eq_nil_iff_forall_not_mem.mpr
  intro v hv
  obtain ⟨_, e, he, _, hn, _⟩ := (mem_neighbors es f x v).mp hv
  exact hx (List.mem_flatten.mpr ⟨e, he, hn⟩)

/-- the visited set of `_bfs(hg, start, order|size)` for a start node of the hypergraph -/
def bfsH (es : List Edge) (f : Filt) (start : Nat) : List Nat :=
  bfs es.flatten (neighbors es f) (neighbors_nil_of_not_mem es f) [start] []

/-- `_bfs`: `if not hg.check_node(start): raise ValueError` -/
def bfsFrom (nodes : List Nat) (es : List Edge) (f : Filt) (start : Nat) : Option (List Nat) :=
  if start ∈ nodes then some (bfsH es f start) else none

/-! ## connected components and the wrappers of `utils/cc.py` -/

/-- the `for node in hg.get_nodes()` loop of `connected_components` (`visited += component`,
`components.append(component)`) -/
def compLoop (cls : Nat → List Nat) : List Nat → List Nat → List (List Nat) → List (List Nat)
  | [], _, comps => comps
  | n :: rest, visited, comps =>
    if n ∈ visited then compLoop cls rest visited comps
    else compLoop cls rest (visited ++ cls n) (comps ++ [cls n])

def components (nodes : List Nat) (es : List Edge) (f : Filt) : List (List Nat) :=
  compLoop (bfsH es f) nodes [] []

/-- `is_connected`: `len(connected_components(order, size)) == 1` -/
def isConnected (nodes : List Nat) (es : List Edge) (f : Filt) : Bool := (components nodes es f).length == 1

/-- `num_connected_components` -/
def numComponents (nodes : List Nat) (es : List Edge) (f : Filt) : Nat := (components nodes es f).length

/-- `node_connected_component`: `_bfs(hg, node, order, size)` -/
def nodeComponent (nodes : List Nat) (es : List Edge) (f : Filt) (n : Nat) : Option (List Nat) := bfsFrom nodes es f n

/-- Python `max(components, key=len)`: the first element of maximal length; `ValueError` on the empty list -/
def maxByLen : List (List Nat) → Option (List Nat)
  | [] => none
  | c :: t => some (t.foldl (fun best d => if best.length < d.length then d else best) c)

/-- `largest_component` -/
def largestComponent (nodes : List Nat) (es : List Edge) (f : Filt) : Option (List Nat) :=
  maxByLen (components nodes es f)

/-- `largest_component_size`: `len(hg.largest_component(...))` -/
def largestComponentSize (nodes : List Nat) (es : List Edge) (f : Filt) : Option Nat :=
  (largestComponent nodes es f).map List.length

/-- `isolated_nodes`: nodes whose filtered neighbourhood is empty, in `get_nodes()` order -/
def isolatedNodes (nodes : List Nat) (es : List Edge) (f : Filt) : List Nat :=
  nodes.filter (fun n => (neighbors es f n).isEmpty)

/-- `is_isolated` (`get_neighbors` rejects a node that is not in the hypergraph) -/
def isIsolated? (nodes : List Nat) (es : List Edge) (f : Filt) (n : Nat) : Option Bool :=
  if n ∈ nodes then some (neighbors es f n).isEmpty else none

end C08
