import Hgxv.Model.C06Str
import Hgxv.Model.C06Text
/-! # C06 — the character level of the `.json` text format

What `save_hypergraph(.json)` hands to the file, unit by unit (a unit = one character code; by `C06_str_ascii` and
`C06_json_record_ascii` every unit is printable ASCII or LF, so units = bytes under every ASCII-compatible encoding):

* `Num.natDigits` / `Num.encInt` — `int.__repr__` as used by `json.dump` for `int` of ANY size; `Num.decNat` /
  `Num.decInt` — the JSON number grammar for integers `-?(0|[1-9][0-9]*)` + `int(...)` (strict: no `+`, no leading
  zero, no empty text);
* `J F` — a JSON value (`null`, `true`/`false`, int, float, string, array, object with string keys in insertion
  order); floats are a parameter `F` with their text `repr : F → List Nat` (`float.__repr__`; contract stated where
  used); `J.emit repr` — `json.dump(v, separators=(",", ":"))` (`ensure_ascii` default: strings through
  `Str.encode`);
* `render` — the pieces of `Model/C06Text.lean` as characters: `[` LF, `,` LF, LF `]`, a record through `enc`;
  `fileText` — the same text by recursion on the record list;
* `splitLF`, `recLines`, `readRecLines`, `readFile` — the file read LINE BY LINE: first line `[`, then one record per
  line, each but the last followed by `,`, last line `]`.

Core Lean only. -/
namespace C06
namespace Num

/-- decimal digits of `n` as character codes, most significant first (`str(n)` for `n ≥ 0`) -/
def natDigits (n : Nat) : List Nat :=
  if n < 10 then [48 + n] else natDigits (n / 10) ++ [48 + n % 10]
decreasing_by omega

/-- `str(i)` for a Python `int` -/
def encInt : Int → List Nat
  | .ofNat n => natDigits n
  | .negSucc n => 45 :: natDigits (n + 1)

def isDigit (d : Nat) : Bool := 48 ≤ d && d ≤ 57

def digitsVal (l : List Nat) : Nat := l.foldl (fun a d => 10 * a + (d - 48)) 0

/-- `(0|[1-9][0-9]*)` -/
def decNat (l : List Nat) : Option Nat :=
  if l ≠ [] ∧ l.all isDigit = true ∧ (l.head? ≠ some 48 ∨ l.length = 1) then some (digitsVal l) else none

/-- `-?(0|[1-9][0-9]*)` -/
def decInt (l : List Nat) : Option Int :=
  if l.head? = some 45 then (decNat l.tail).map (fun n => - (n : Int)) else (decNat l).map Int.ofNat

end Num

namespace Json

mutual
/-- a JSON value; `F` = the floats -/
inductive J (F : Type) where
  | null
  | bool (b : Bool)
  | int (i : Int)
  | flt (f : F)
  | str (s : List Nat)
  | arr (xs : JL F)
  | obj (kv : JO F)
/-- the items of an array -/
inductive JL (F : Type) where
  | nil
  | cons (x : J F) (xs : JL F)
/-- the members of an object (string keys, insertion order) -/
inductive JO (F : Type) where
  | nil
  | cons (k : List Nat) (v : J F) (kv : JO F)
end

section emit
variable {F : Type} (repr : F → List Nat)

mutual
/-- `json.dump(v, separators=(",", ":"))` -/
def J.emit : J F → List Nat
  | .null => [110, 117, 108, 108]
  | .bool true => [116, 114, 117, 101]
  | .bool false => [102, 97, 108, 115, 101]
  | .int i => Num.encInt i
  | .flt f => repr f
  | .str s => Str.encode s
  | .arr .nil => [91, 93]
  | .arr (.cons x xs) => 91 :: (J.emit x ++ (JL.emitTail xs ++ [93]))
  | .obj .nil => [123, 125]
  | .obj (.cons k v kv) => 123 :: (Str.encode k ++ (58 :: (J.emit v ++ (JO.emitTail kv ++ [125]))))
/-- `,` item for every further item -/
def JL.emitTail : JL F → List Nat
  | .nil => []
  | .cons x xs => 44 :: (J.emit x ++ JL.emitTail xs)
/-- `,` key `:` value for every further member -/
def JO.emitTail : JO F → List Nat
  | .nil => []
  | .cons k v kv => 44 :: (Str.encode k ++ (58 :: (J.emit v ++ JO.emitTail kv)))
end

end emit

section file
variable {α : Type}

/-- one piece of the file as characters: `outfile.write("[\n")`, `",\n"`, `"\n]"`, `json.dump(item, ...)` -/
def renderPiece (enc : α → List Nat) : Piece α → List Nat
  | .opn => [91, 10]
  | .sep => [44, 10]
  | .cls => [10, 93]
  | .item r => enc r

def render (enc : α → List Nat) (ps : List (Piece α)) : List Nat := ps.flatMap (renderPiece enc)

/-- what follows the first record: `,` LF record ... LF `]` -/
def body (enc : α → List Nat) : List α → List Nat
  | [] => [10, 93]
  | r :: rs => 44 :: 10 :: (enc r ++ body enc rs)

/-- the whole file text for the record list -/
def fileText (enc : α → List Nat) : List α → List Nat
  | [] => [91, 10, 10, 93]
  | r :: rs => 91 :: 10 :: (enc r ++ body enc rs)

/-- `text.split("\n")` -/
def splitLF : List Nat → List (List Nat)
  | [] => [[]]
  | c :: cs =>
    if c = 10 then [] :: splitLF cs
    else match splitLF cs with
      | [] => [[c]]
      | l :: ls => (c :: l) :: ls

/-- the lines after `[` of a file with the records `r :: rs`: a record and `,` per line, the last record alone, `]` -/
def recLines (enc : α → List Nat) : α → List α → List (List Nat)
  | r, [] => [enc r, [93]]
  | r, r' :: rs => (enc r ++ [44]) :: recLines enc r' rs

/-- a line `record,` without its comma -/
def unComma (l : List Nat) : Option (List Nat) := if l.getLast? = some 44 then some l.dropLast else none

/-- the lines after `[`: records until the line before `]` -/
def readRecLines (dec : List Nat → Option α) : List (List Nat) → Option (List α)
  | [] => none
  | l :: rest =>
    if rest = [[93]] then (dec l).map (fun r => [r])
    else
      match unComma l with
      | none => none
      | some b =>
        match dec b, readRecLines dec rest with
        | some r, some rs => some (r :: rs)
        | _, _ => none

/-- the file read line by line (`dec` = the reader of one record's text); `[` LF LF `]` is the empty array -/
def readFile (dec : List Nat → Option α) (text : List Nat) : Option (List α) :=
  if splitLF text = [[91], [], [93]] then some []
  else
    match splitLF text with
    | [91] :: rest => readRecLines dec rest
    | _ => none

end file

/-- `save_hypergraph(.json)` down to the characters, `load_hypergraph(.json)` from them (record codec `enc` / `dec`) -/
def saveFile {κ : Type} [DecidableEq κ] [Kind κ] (enc : Record → List Nat) (c : Content κ) : List Nat :=
  render enc (saveText c)
def loadFile {κ : Type} [DecidableEq κ] [Kind κ] (dec : List Nat → Option Record) (text : List Nat) :
    Option (Content κ) :=
  (readFile dec text).bind load
def saveFileAny (enc : Record → List Nat) (a : AnyContent) : List Nat := render enc (saveTextAny a)
def loadFileAny (dec : List Nat → Option Record) (text : List Nat) : Option AnyContent :=
  (readFile dec text).bind loadAny

end Json
end C06
