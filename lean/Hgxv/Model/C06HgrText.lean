import Hgxv.Model.C06Json
/-! # C06 — the `.hgr` reader from the CHARACTERS of the file

`for line in file: this_l = line.strip(); ... [int(r) for r in this_l.split(" ") if r != ""]` of `load_hypergraph(.hgr)`:
`isSpace` (`str.isspace`), `strip`, `splitSP` (`split(" ")`), `pyNat` (`int(r)` on a token of ASCII digits - leading zeros
allowed; tokens `int()` accepts beyond that (`+1`, `1_0`, non-ASCII digits) are rejected by the model: outside "syntactically
valid"), `lexLine`, `lexText` (lines = the text split at LF, as the text layer delivers it), `parseHgrText`.
`dataLine` / `unlines` = how a valid file is written: decimal tokens separated by one blank, every line ended by LF.
Core Lean only. -/
namespace C06
namespace HgrText
open Num Json

/-- `str.isspace` -/
def isSpace (c : Nat) : Bool :=
  (9 ≤ c && c ≤ 13) || (28 ≤ c && c ≤ 32) || c == 133 || c == 160 || c == 5760 || (8192 ≤ c && c ≤ 8202) ||
  c == 8232 || c == 8233 || c == 8239 || c == 8287 || c == 12288

/-- `str.strip()` -/
def strip (l : List Nat) : List Nat := ((l.dropWhile isSpace).reverse.dropWhile isSpace).reverse

/-- `s.split(" ")` -/
def splitSP : List Nat → List (List Nat)
  | [] => [[]]
  | c :: cs =>
    if c = 32 then [] :: splitSP cs
    else match splitSP cs with
      | [] => [[c]]
      | l :: ls => (c :: l) :: ls

/-- `int(r)` for a token of ASCII digits -/
def pyNat (t : List Nat) : Option Nat :=
  if t ≠ [] ∧ t.all isDigit = true then some (digitsVal t) else none

/-- `[int(r) for r in s.split(" ") if r != ""]` -/
def tokens (s : List Nat) : Option (List Nat) := ((splitSP s).filter (fun t => t ≠ [])).mapM pyNat

/-- one line of the file: blank and `%` lines are skipped, every other line is its integer tokens -/
def lexLine (line : List Nat) : Option Line :=
  if strip line = [] ∨ (strip line).head? = some 37 then some .skip
  else (tokens (strip line)).map Line.toks

def lexText (text : List Nat) : Option (List Line) := (splitLF text).mapM lexLine

/-- `load_hypergraph("x.hgr")` from the characters of the file -/
def parseHgrText (text : List Nat) : Option (Content HKey) := (lexText text).bind parseHgr

/-- tokens separated by one blank -/
def joinSP : List (List Nat) → List Nat
  | [] => []
  | [t] => t
  | t :: t' :: ts => t ++ 32 :: joinSP (t' :: ts)

/-- a data line as a valid file has it: decimal numbers separated by one blank -/
def dataLine (ts : List Nat) : List Nat := joinSP (ts.map natDigits)

/-- every line ended by LF -/
def unlines : List (List Nat) → List Nat
  | [] => []
  | l :: ls => l ++ 10 :: unlines ls

end HgrText
end C06
