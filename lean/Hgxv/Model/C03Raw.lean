import Hgxv.Model.C03Ext
/-! # C03, second extension round - the raw setters `set_edge_list` / `set_adj_dict` (core Lean only)

`set_edge_list(d)` is `self._edge_list = d`, `set_adj_dict(d)` is `self._adj = d`: one table is replaced, nothing is checked,
no other table moves.  `ROp` = a call of the machine of `Model/C03Ext.lean` or one of the two raw assignments on a slot;
`rstep` / `rrun`; `ROp.echo st op` = the assignment hands back the table the object holds at that moment (what
`h.set_edge_list(dict(h.get_edge_list()))` does); `echoes`; `pubOps` = the history without its raw assignments.
`dropAt` / `revAt` build the NON-echo arguments that the correspondence run uses (entry `j` deleted / the id list of entry
`j` reversed). -/
namespace C03
open AL

/-- `set_edge_list(t)` -/
def setEdgeList (s : Store) (t : List (Key × Nat)) : Store := { s with edgeList := t }
/-- `set_adj_dict(t)` -/
def setAdjDict (s : Store) (t : List (Node × List Nat)) : Store := { s with adj := t }

inductive ROp
  | x (op : XOp)
  | setEdgeList (i : Nat) (t : List (Key × Nat))
  | setAdjDict (i : Nat) (t : List (Node × List Nat))

/-- the assignment on the object of slot `i`; no object in the slot = the caller has nothing to call it on -/
def rawOn (st : FState) (i : Nat) (f : Store → Store) : FState × XRes :=
  match AL.get? st i with
  | none => (st, .out .rej)
  | some o => (AL.set st i { o with base := f o.base }, .out .ok)

def rstep (st : FState) : ROp → FState × XRes
  | .x op => xstep st op
  | .setEdgeList i t => rawOn st i (fun s => setEdgeList s t)
  | .setAdjDict i t => rawOn st i (fun s => setAdjDict s t)

def rrun (st : FState) (ops : List ROp) : FState := ops.foldl (fun st op => (rstep st op).1) st

/-- the argument is (an equal copy of) the table the object holds -/
def ROp.echo (st : FState) : ROp → Bool
  | .x _ => true
  | .setEdgeList i t => match AL.get? st i with | none => true | some o => decide (t = edgeTable o.base)
  | .setAdjDict i t => match AL.get? st i with | none => true | some o => decide (t = adjTable o.base)

/-- every raw assignment of the history is an echo at the moment it is made -/
def echoes (st : FState) : List ROp → Bool
  | [] => true
  | op :: ops => op.echo st && echoes (rstep st op).1 ops

/-- the history without its raw assignments -/
def pubOps : List ROp → List XOp
  | [] => []
  | .x op :: ops => op :: pubOps ops
  | _ :: ops => pubOps ops

/-- entry `j` of a table deleted (`d = dict(table); del d[list(d)[j]]`) -/
def dropAt {α : Type} (l : List α) (j : Nat) : List α := l.eraseIdx j
/-- the id list of entry `j` of the adjacency reversed -/
def revAt (l : List (Node × List Nat)) (j : Nat) : List (Node × List Nat) :=
  l.modify j (fun p => (p.1, p.2.reverse))

end C03
