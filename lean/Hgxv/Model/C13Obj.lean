import Hgxv.Model.C13Ext
/-! # C13, second extension round — `Int`-typed entry point, unknown labels, the returned OBJECT (core Lean only)

What `Model/C13Ext.lean` left outside:

* `order` / `size` / `n_steps` as Python hands them over: INTEGERS of either sign.  `size = order + 1` is computed in
  `Int`; a negative size selects the empty layer (`get_edges(size=-3, ...)` is the empty sub-hypergraph, `len(e) != size`
  holds for every hyperedge); `while n < n_steps` with a negative `n_steps` performs no step (`cmCallI`).
* the `else` branch of `_cm_MCMC` for a label that is none of `'edge'`, `'stub'`, `'vertex'`: prints, draws nothing and
  returns `None`; the `size=` / `order=` variant then calls `None.add_edge(e)` for the first hyperedge of another size
  (`AttributeError`) and returns `None` when there is none (`LabelX.other`).
* what the returned object CARRIES: `new_h = Hypergraph()` is unweighted, `add_edges(generated_edges)` and
  `shuffled.add_edge(e)` are called without weight and metadata, so every hyperedge has weight `1` and metadata `{}`,
  every registered node metadata `{}`, the hypergraph metadata is the constructor's default – whatever the input carried
  (`Obj`, `bare`, `cmObj`).
* the draws that are LEFT are part of the answer (second component), so that "draws nothing" is a statement.

`label='vertex'` stays outside (see notes/C13.md: its invariants are false for the code that exists). -/
namespace C13

/-- the `label` argument: `'edge'` / `'stub'`, or anything else that is not `'vertex'` -/
inductive LabelX where
  | known (l : Label)
  | other
deriving Repr, DecidableEq

/-- `if order is not None and size is not None: raise ValueError`; `if size is None: size = order + 1` -/
def resolveSizeI (order size : Option Int) : Except Err (Option Int) :=
  match order, size with
  | some _, some _ => .error .raise
  | none, none => .ok none
  | none, some s => .ok (some s)
  | some o, none => .ok (some (o + 1))

/-- `len(e) == size` for an integer `size` of either sign -/
def inLayer (s : Int) (e : Edge) : Bool := (e.length : Int) == s

/-- `hypergraph.get_edges(size=size, up_to=False, subhypergraph=True, ...)`: the hyperedges handed to `_cm_MCMC` -/
def selectedI (size : Option Int) (es : List Edge) : List Edge :=
  match size with
  | none => es
  | some s => es.filter (inLayer s)

/-- `[e for e in hypergraph.get_edges() if len(e) != size]`: re-added one by one after the run -/
def othersI (size : Option Int) (es : List Edge) : List Edge :=
  match size with
  | none => []
  | some s => es.filter (fun e => !inLayer s e)

/-- `_cm_MCMC`: the listing of the returned hypergraph, or `None` (unknown label: nothing is read, nothing drawn) -/
def mcmcX (label : LabelX) (detailed : Bool) (nSteps : Nat) (es : List Edge) (ds : List Draw) :
    Except Err (Option (List Edge) × List Draw) :=
  match label with
  | .other => .ok (none, ds)
  | .known _ =>
    match chain detailed nSteps es ds with
    | .error e => .error e
    | .ok (es', ds') => .ok (some (dedup (es'.map sortNodes)), ds')

/-- `for e in hypergraph.get_edges(): if len(e) != size: shuffled.add_edge(e)` — on `None` the first such
hyperedge raises `AttributeError` -/
def readdI (others : List Edge) (shuffled : Option (List Edge)) : Except Err (Option (List Edge)) :=
  match shuffled with
  | some out => .ok (some (others.foldl addEdge out))
  | none => if others.isEmpty then .ok none else .error .raise

/-- `configuration_model(hypergraph, n_steps, label, order, size, n_clash, detailed)` with integer arguments:
the listing of the returned object (or `None`) and the draws that were not consumed -/
def cmCallI (label : LabelX) (detailed : Bool) (order size : Option Int) (nSteps : Int)
    (es : List Edge) (ds : List Draw) : Except Err (Option (List Edge) × List Draw) :=
  match resolveSizeI order size with
  | .error e => .error e
  | .ok sz =>
    match mcmcX label detailed nSteps.toNat (selectedI sz es) ds with
    | .error e => .error e
    | .ok (shuffled, ds') =>
      match sz with
      | none => .ok (shuffled, ds')
      | some _ =>
        match readdI (othersI sz es) shuffled with
        | .error e => .error e
        | .ok r => .ok (r, ds')

/-! ## the object -/

/-- a `Hypergraph` as far as weights and metadata go.  Weights and metadata are codes: weight `1` is the number 1,
metadata `0` is the empty dict `{}`, hypergraph metadata `0` is what `Hypergraph()` sets
(`{'weighted': False, 'type': 'Hypergraph'}`). -/
structure Obj where
  /-- `is_weighted()` -/
  weighted : Bool
  /-- `get_edges()` zipped with `get_weights()` and the hyperedge metadata -/
  items : List (Edge × Nat × Nat)
  /-- `get_nodes(metadata=True)` (isolated nodes included) -/
  nodeMeta : List (Nat × Nat)
  /-- `get_hypergraph_metadata()` -/
  hmeta : Nat
deriving Repr, DecidableEq

/-- `get_edges()` -/
def Obj.listing (h : Obj) : List Edge := h.items.map (·.1)

/-- `new_h = Hypergraph(); new_h.add_edges(out)` / `.add_edge(e)`: unweighted, unit weights, empty metadata -/
def bare (out : List Edge) : Obj :=
  { weighted := false, items := out.map (fun e => (e, 1, 0)),
    nodeMeta := (nodesOf out).map (fun n => (n, 0)), hmeta := 0 }

/-- the whole call on an object: only `get_edges()` of the input is read -/
def cmObj (label : LabelX) (detailed : Bool) (order size : Option Int) (nSteps : Int)
    (h : Obj) (ds : List Draw) : Except Err (Option Obj × List Draw) :=
  match cmCallI label detailed order size nSteps h.listing ds with
  | .error e => .error e
  | .ok (r, ds') => .ok (r.map bare, ds')

end C13
