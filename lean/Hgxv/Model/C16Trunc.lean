/-! # C16, second extension round: the inverse-cdf scheme of `sample_truncated_poisson`

```
u = rng.random(...)                          # uniform in [0, 1)
p = u + (1 - u) * np.exp(-lambd)             # uniform in [P(X = 0), 1)
p = np.minimum(p, np.nextafter(1.0, 0.0))
return np.maximum(stats.poisson.ppf(p, lambd), 1.0)
```
over any number type (the driver runs it at `Rat`, the theorems are stated over every linearly ordered field): `e` stands for
`exp(-lambd)`, `cdf k` for `P(X <= k)` (a parameter: any table), `pmax` for `nextafter(1, 0)`; `ppf(p)` is the least `k`
with `p <= cdf k`, searched below `fuel`.  Core Lean only. -/
namespace C16

section
variable {α : Type} [Add α] [Mul α] [Sub α] [One α] [LE α] [DecidableLE α]

/-- least `k` in `[k, k + fuel)` with `p <= cdf k` (`stats.poisson.ppf`) -/
def ppfFrom (cdf : Nat → α) (p : α) : Nat → Nat → Option Nat
  | 0, _ => none
  | fuel + 1, k => if p ≤ cdf k then some k else ppfFrom cdf p fuel (k + 1)

/-- `np.minimum(u + (1 - u) * exp(-lambd), nextafter(1, 0))` -/
def truncP (u e pmax : α) : α := if u + (1 - u) * e ≤ pmax then u + (1 - u) * e else pmax

/-- one draw of `sample_truncated_poisson`; `none`: the quantile lies beyond the table -/
def truncDraw (cdf : Nat → α) (u e pmax : α) (fuel : Nat) : Option Nat :=
  (ppfFrom cdf (truncP u e pmax) fuel 0).map (fun q => max q 1)

end

/-- the draw computed from a cdf TABLE (the driver's entry point): entries `P(X <= 0), P(X <= 1), ...` -/
def truncDrawTab (tab : List Rat) (u e pmax : Rat) : Option Nat :=
  truncDraw (fun k => tab.getD k 0) u e pmax tab.length

end C16
