/-! # C15 — executable model of `hypergraphx.communities.hy_mmsbm` (core Lean only)

Python function ↔ definition here (all over exact rationals `Rat`):

* `_linear_ops.qf / bf / qf_and_sum / bf_and_sum`            ↔ `qf`, `bf`, `qfSum`, `bfSum`
* `HyMMSBM._edge_sum`, `poisson_params`                       ↔ `edgeSum`, `poisson`
* `HyMMSBM.C`, `_C_prime`, `_C_second`, `exp(log_kappa)`      ↔ `Cterm`/`C`, `Cprime`, `Csecond`, `kappa`
* `expected_degree(per_node=True/False)`                      ↔ `expDegNode`, `expDegAvg`
* `dimension_sequence(expected=True)`                         ↔ `expDimSeq`
* `_w_update`, `_u_update` (entry 0 where the denominator vanishes) ↔ `safeDiv`, `wUpdate`, `uUpdate` (+ guards `wUpdate?`, `uUpdate?`)
* the loop of `fit`, its `fixed_w / fixed_u` flags, the inferred `max_hye_size`, the final division
                                                              ↔ `emStep`, `emLoop`, `finish`, `fit`
* `fit(tolerance=, check_convergence_every=)`: the convergence test, `break`, `training_iter`,
  `tolerance_reached`                                         ↔ `Stop`, `normLt`, `converged`, `checkAt`, `stopNow`,
                                                                `loopFrom`, `emRun`, `fitRun`, `Run`
* one `HyMMSBM` instance across calls: its attributes, `fit` on an object that earlier calls have
  left in some state, a session of calls, queries on the object   ↔ `Obj`, `newObj`, `fitObj`, `FitCall`, `callFit`,
                                                                `runSession`, `poisObj`, `edgeSumObj`

Arrays are total index functions (`Vec = Nat → Rat`, `Mat = Nat → Nat → Rat`) together with their
dimensions; numpy's `@`, `*`, `.sum` become the index sums `sumTo`.  A hyperedge is the list of its
node indices; column `e` of the binary incidence matrix is `inc e`.  Random initialisation
(`_init_u`, `_init_w`) and `np.sqrt(C)` are explicit parameters (`u0`, `w0`, `sqrtC`). -/
namespace C15

abbrev Vec := Nat → Rat
abbrev Mat := Nat → Nat → Rat

/-- `Σ_{i<n} f i` (numpy `.sum` along an axis of length `n`) -/
def sumTo : Nat → (Nat → Rat) → Rat
  | 0, _ => 0
  | n + 1, f => sumTo n f + f n

/-- the float literal `0.5` -/
def half : Rat := 1 / 2

/-! ## `_linear_ops.py` -/

/-- `x @ w` for one row vector `x` of length `K` -/
def vecMat (K : Nat) (x : Vec) (w : Mat) : Vec := fun b => sumTo K fun a => x a * w a b

/-- `qf(x, w) = ((x @ w) * x).sum(axis=-1)` for one row -/
def qf (K : Nat) (x : Vec) (w : Mat) : Rat := sumTo K fun b => vecMat K x w b * x b

/-- `bf(x, y, w) = (x @ w) @ y.T` for one pair of rows -/
def bf (K : Nat) (x y : Vec) (w : Mat) : Rat := sumTo K fun b => vecMat K x w b * y b

/-- `qf_and_sum(u, w) = ((u @ w) * u).sum()` -/
def qfSum (N K : Nat) (u w : Mat) : Rat := sumTo N fun i => qf K (u i) w

/-- `u.sum(axis=0)` -/
def colSum (N : Nat) (u : Mat) : Vec := fun a => sumTo N fun i => u i a

/-- `bf_and_sum(u, w) = 0.5 * (qf(u.sum(axis=0), w) - qf_and_sum(u, w))` -/
def bfSum (N K : Nat) (u w : Mat) : Rat := half * (qf K (colSum N u) w - qfSum N K u w)

/-! ## Poisson parameters -/

/-- column of the binary incidence matrix of the hyperedge `e` -/
def inc (e : List Nat) (i : Nat) : Rat := if i ∈ e then 1 else 0

/-- `_edge_sum`: row `e` of `binary_incidence.T @ u` -/
def edgeSum (N : Nat) (u : Mat) (e : List Nat) : Vec := fun a => sumTo N fun i => inc e i * u i a

/-- `poisson_params` for one hyperedge:
`0.5 * (qf(edge_sum, w) - binary_incidence.T @ qf(u, w))` -/
def poisson (N K : Nat) (u w : Mat) (e : List Nat) : Rat :=
  half * (qf K (edgeSum N u e) w - sumTo N fun i => inc e i * qf K (u i) w)

/-! ## closed-form constants (`kappa_fn = "binom+avg"`) -/

/-- binomial coefficient by Pascal's rule -/
def choose : Nat → Nat → Nat
  | _, 0 => 1
  | 0, _ + 1 => 0
  | n + 1, k + 1 => choose n k + choose n (k + 1)

/-- `exp(log_kappa(d))`: `binom(N-2, d-2) * d * (d-1) / 2` -/
def kappa (N d : Nat) : Rat := (choose (N - 2) (d - 2) : Nat) * (d : Rat) * ((d : Rat) - 1) / 2

/-! ### `log_kappa` / `log_binomial`: the binomial coefficient in log space

`log_binomial(n, k) = np.log(np.arange(n - k + 1, n + 1)).sum() - np.log(np.arange(1, k + 1)).sum()` never forms the
coefficient: it holds it as the two products whose factors it takes the logarithms of.  The model keeps exactly these
two products (exact naturals of any size; this is also how the driver evaluates `kappa` for thousands of nodes, where
Pascal's rule is hopeless); `C15_log_binomial` / `C15_log_kappa` say that the sums of logarithms are `log C(n,k)` and
`log kappa`. -/

/-- product of `np.arange(lo, lo + len)` -/
def prodFrom (lo : Nat) : Nat → Nat
  | 0 => 1
  | len + 1 => prodFrom lo len * (lo + len)

/-- product of `np.arange(n - k + 1, n + 1)` -/
def binomNum (n k : Nat) : Nat := prodFrom (n - k + 1) k

/-- product of `np.arange(1, k + 1)` -/
def binomDen (k : Nat) : Nat := prodFrom 1 k

/-- `exp(log_kappa(d))` from the two products of `log_binomial(N - 2, d - 2)` and the factors `d`, `d - 1`, `1/2` whose
logarithms `log_kappa` adds -/
def kappaProd (N d : Nat) : Rat :=
  ((binomNum (N - 2) (d - 2) : Nat) : Rat) / ((binomDen (d - 2) : Nat) : Rat) * (d : Rat) * ((d : Rat) - 1) / 2

/-- summand of `C`: `2 / (d * (d - 1))` -/
def Cterm (d : Nat) : Rat := 2 / ((d : Rat) * ((d : Rat) - 1))

def sumL (ds : List Nat) (f : Nat → Rat) : Rat := ds.foldr (fun d acc => f d + acc) 0

/-- `C(d)` (sum of the summands over the dimensions `ds`) -/
def C (ds : List Nat) : Rat := sumL ds Cterm

/-- `_C_prime(d) = 2 / (N - 2) * sum((d - 2) / (d * (d - 1)))` -/
def Cprime (N : Nat) (ds : List Nat) : Rat :=
  2 / ((N : Rat) - 2) * sumL ds fun d => ((d : Rat) - 2) / ((d : Rat) * ((d : Rat) - 1))

/-- `_C_second(d) = 2 / N * sum(1 / (d - 1))` -/
def Csecond (N : Nat) (ds : List Nat) : Rat :=
  2 / (N : Rat) * sumL ds fun d => 1 / ((d : Rat) - 1)

/-- `np.arange(lo, D + 1)` -/
def dims (lo D : Nat) : List Nat := List.range' lo (D + 1 - lo)

/-- the constants divide by `d`, `d - 1`, `N - 2`, `N`: they are finite exactly when this holds -/
def constsOk (N : Nat) (ds : List Nat) : Bool := decide (3 ≤ N) && ds.all (fun d => decide (2 ≤ d))

/-- `C` and `_C_second` only divide by `d`, `d - 1` and `N` -/
def sizesOk (N : Nat) (ds : List Nat) : Bool := decide (1 ≤ N) && ds.all (fun d => decide (2 ≤ d))

/-! ## expected statistics -/

/-- `expected_degree(per_node=True, d=ds)[i]` -/
def expDegNode (N K : Nat) (u w : Mat) (ds : List Nat) (i : Nat) : Rat :=
  let uSum := colSum N u
  let first := bf K (u i) uSum w - qf K (u i) w
  let second := half * (qf K (fun a => uSum a - u i a) w - qfSum N K u w + qf K (u i) w)
  C ds * first + Cprime N ds * second

/-- `expected_degree(per_node=False, d=ds)` -/
def expDegAvg (N K : Nat) (u w : Mat) (ds : List Nat) : Rat := Csecond N ds * bfSum N K u w

/-- `dimension_sequence(expected=True)`: `{d: C(d) * bf_and_sum(u, w) if > 0}` -/
def expDimSeq (N K : Nat) (u w : Mat) (ds : List Nat) : List (Nat × Rat) :=
  (ds.map fun d => (d, Cterm d * bfSum N K u w)).filter fun p => decide (0 < p.2)

/-! ## EM / MAP updates -/

/-- the data: `E` hyperedges (`edge e` for `e < E`) with weights `A e`, on `N` nodes; `K` communities -/
structure Data where
  N : Nat
  K : Nat
  E : Nat
  edge : Nat → List Nat
  A : Nat → Rat

/-- `multiplier = hye_weights / poisson_params` -/
def mult (d : Data) (u w : Mat) (e : Nat) : Rat := d.A e / poisson d.N d.K u w (d.edge e)

/-- `weighting = (binary_incidence * multiplier[None, :])` -/
def weighting (d : Data) (u w : Mat) (i e : Nat) : Rat := inc (d.edge e) i * mult d u w e

/-- numerator of `_w_update` -/
def wNum (d : Data) (u w : Mat) (a b : Nat) : Rat :=
  let first := sumTo d.E fun e => edgeSum d.N u (d.edge e) a * (edgeSum d.N u (d.edge e) b * mult d u w e)
  let second := sumTo d.N fun i => u i a * (u i b * sumTo d.E fun e => weighting d u w i e)
  half * w a b * (first - second)

/-- denominator of `_w_update` (without the prior): `0.5 * (outer(u_sum, u_sum) - u.T @ u)` -/
def wDen (N : Nat) (u : Mat) (a b : Nat) : Rat :=
  half * (colSum N u a * colSum N u b - sumTo N fun i => u i a * u i b)

/-- the guarded division of the two multiplicative updates (repair of D46):
`np.divide(numerator, denominator, out=np.zeros_like(numerator), where=denominator > 0)` for one entry -
an entry whose denominator vanishes is set to 0, no `0 / 0`.  (Stated as a branch of its own and not through
`x / 0 = 0` of `Rat`: `C15_update_vanishing_den` shows that the numerator vanishes on that branch.) -/
def safeDiv (x y : Rat) : Rat := if 0 < y then x / y else 0

/-- `_w_update`: `numerator / (denominator + w_prior)`, `0` where `denominator + w_prior` is not positive -/
def wUpdate (d : Data) (u w r : Mat) : Mat := fun a b => safeDiv (wNum d u w a b) (wDen d.N u a b + r a b)

/-- numerator of `_u_update` -/
def uNum (d : Data) (u w : Mat) (i a : Nat) : Rat :=
  let first := fun c => sumTo d.E fun e => weighting d u w i e * edgeSum d.N u (d.edge e) c
  let second := fun c => (sumTo d.E fun e => weighting d u w i e) * u i c
  u i a * sumTo d.K fun c => (first c - second c) * w c a

/-- denominator of `_u_update` (without the prior): `(w @ u_sum)[None, :] - u @ w` -/
def uDen (d : Data) (u w : Mat) (i a : Nat) : Rat :=
  (sumTo d.K fun c => w a c * colSum d.N u c) - sumTo d.K fun c => u i c * w c a

/-- `_u_update`: `numerator / (denominator + u_prior)`, `0` where `denominator + u_prior` is not positive -/
def uUpdate (d : Data) (u w r : Mat) : Mat := fun i a => safeDiv (uNum d u w i a) (uDen d u w i a + r i a)

def allTo (n : Nat) (p : Nat → Bool) : Bool := (List.range n).all p

/-- no division by zero in `multiplier = hye_weights / poisson_params` (numpy would produce `inf`/`nan`, exact
arithmetic raises); the division by the denominators is guarded by the code itself (`safeDiv`) -/
def multOk (d : Data) (u w : Mat) : Bool :=
  allTo d.E (fun e => decide (poisson d.N d.K u w (d.edge e) ≠ 0))

def wUpdate? (d : Data) (u w r : Mat) : Option Mat :=
  if multOk d u w then some (wUpdate d u w r) else none

def uUpdate? (d : Data) (u w r : Mat) : Option Mat :=
  if multOk d u w then some (uUpdate d u w r) else none

/-! ## `fit` -/

/-- an array received / stored as nested lists (out-of-range reads give 0 and are never used) -/
def matOf (rows : List (List Rat)) : Mat := fun i a => (rows.getD i []).getD a 0
/-- the `n × m` array holding the values of `x` (what `self.w = ...` stores) -/
def toRows (n m : Nat) (x : Mat) : List (List Rat) :=
  (List.range n).map fun i => (List.range m).map fun a => x i a

/-- the two parameter arrays of the model object -/
structure Params where
  u : List (List Rat)
  w : List (List Rat)

/-- one pass of the training loop: `if not fixed_w: w = _w_update(); if not fixed_u: u = _u_update()`
(the u-update sees the new `w`) -/
def emStep (d : Data) (fixedU fixedW : Bool) (ru rw : Mat) (p : Params) : Params :=
  let w' := if fixedW then p.w else toRows d.K d.K (wUpdate d (matOf p.u) (matOf p.w) rw)
  let u' := if fixedU then p.u else toRows d.N d.K (uUpdate d (matOf p.u) (matOf w') ru)
  { u := u', w := w' }

/-- the state after `n` passes of the loop body (no stopping rule: `tolerance=None`, the default) -/
def emLoop (d : Data) (fixedU fixedW : Bool) (ru rw : Mat) : Nat → Params → Params
  | 0, p => p
  | n + 1, p => emStep d fixedU fixedW ru rw (emLoop d fixedU fixedW ru rw n p)

/-! ### early stopping: `fit(..., tolerance=tol, check_convergence_every=every)` -/

/-- the two arguments of the stopping rule (`tolerance is not None`) -/
structure Stop where
  tol : Rat
  every : Nat

/-- `np.linalg.norm(x - y) ** 2` for `n × m` arrays (Frobenius norm: the sum of the squared entries) -/
def sqDist (n m : Nat) (x y : List (List Rat)) : Rat :=
  sumTo n fun i => sumTo m fun a => (matOf x i a - matOf y i a) * (matOf x i a - matOf y i a)

/-- `np.linalg.norm(x - y) / s < tol`, decided without the square root: the norm is `≥ 0`, so the test fails for
`tol ≤ 0` and is `‖x − y‖² < (tol·s)²` otherwise (`C15_stop_rule` states the equivalence over `ℝ`) -/
def normLt (n m : Nat) (x y : List (List Rat)) (s : Nat) (tol : Rat) : Bool :=
  decide (0 < tol) && decide (sqDist n m x y < (tol * (s : Rat)) * (tol * (s : Rat)))

/-- `converged = norm(self.w - old_w) / self.K < tolerance and norm(self.u - old_u) / num_nodes < tolerance` -/
def converged (d : Data) (tol : Rat) (p old : Params) : Bool :=
  normLt d.K d.K p.w old.w d.K tol && normLt d.N d.K p.u old.u d.N tol

/-- `(not it % check_convergence_every) and (it > 0)` -/
def checkAt (every it : Nat) : Bool := it % every == 0 && decide (0 < it)

/-- the block `if tolerance is not None: ...` of iteration `it`: does the loop `break`?
`p` = parameters after the updates of this iteration, `old` = `(old_u, old_w)` -/
def stopNow (d : Data) (stop : Option Stop) (it : Nat) (p old : Params) : Bool :=
  match stop with
  | none => false
  | some s => checkAt s.every it && converged d s.tol p old

/-- how the training loop was left: the parameters, the last value of the loop variable `it`
(`training_iter`), and `tolerance_reached` -/
structure Run where
  p : Params
  it : Nat
  reached : Bool

/-- `for it in range(..)`: `k` iterations left, the next one has index `it`; `step` is the loop body
(`emStep`), `old` the parameters stored by `old_w, old_u = self.w, self.u` in the previous iteration
(not read when `it = 0`).  Leaving through `break` keeps `it`; running out leaves `it` at the last index. -/
def loopFrom (d : Data) (step : Params → Params) (stop : Option Stop) : Nat → Nat → Params → Params → Run
  | 0, it, p, _ => { p := p, it := it - 1, reached := false }
  | k + 1, it, p, old =>
    let p' := step p
    if stopNow d stop it p' old then { p := p', it := it, reached := true }
    else loopFrom d step stop k (it + 1) p' p'

/-- the training loop of `fit(n_iter = n, tolerance, check_convergence_every)` started from `p0` -/
def emRun (d : Data) (fixedU fixedW : Bool) (ru rw : Mat) (stop : Option Stop) (n : Nat) (p0 : Params) : Run :=
  loopFrom d (emStep d fixedU fixedW ru rw) stop n 0 p0 p0

/-- with a tolerance, `it % check_convergence_every` raises `ZeroDivisionError` for `check_convergence_every = 0` -/
def stopOk : Option Stop → Bool
  | some s => s.every != 0
  | none => true

/-- after the loop: `w /= C()` when `w` was inferred, else `u /= sqrt(C())` when `u` was inferred
(the code reaches these lines from both exits of the loop) -/
def finish (d : Data) (fixedU fixedW : Bool) (c sqrtC : Rat) (p : Params) : Params :=
  if !fixedW then { u := p.u, w := toRows d.K d.K fun a b => matOf p.w a b / c }
  else if !fixedU then { u := toRows d.N d.K fun i a => matOf p.u i a / sqrtC, w := p.w }
  else p

/-- `max(len(hye) for hye in hypergraph.get_edges())` -/
def maxSize (d : Data) : Nat := (List.range d.E).foldl (fun m e => max m (d.edge e).length) 0

/-- `max_hye_size` after `fit`: the supplied one (rejected if smaller than the data's), else inferred -/
def fitMaxSize (d : Data) (Dsup : Option Nat) : Option Nat :=
  match Dsup with
  | none => some (maxSize d)
  | some D => if D < maxSize d then none else some D

/-- the loop of `HyMMSBM(u=uSup, w=wSup, ...).fit(data, n_iter=n, tolerance, check_convergence_every)`;
`u0`, `w0` are the arrays `_init_u`, `_init_w` would draw -/
def fitRun (d : Data) (uSup wSup : Option (List (List Rat))) (u0 w0 : List (List Rat)) (ru rw : Mat)
    (stop : Option Stop) (n : Nat) : Run :=
  emRun d uSup.isSome wSup.isSome ru rw stop n { u := uSup.getD u0, w := wSup.getD w0 }

/-- `HyMMSBM(u=uSup, w=wSup, max_hye_size=Dsup, u_prior=ru, w_prior=rw).fit(data, n_iter=n, tolerance=..,
check_convergence_every=..)` (`stop = none` is `tolerance=None`); `sqrtC` is the value of `np.sqrt(C())`.
Result: `none` = the call raises (`ValueError` for a too small `max_hye_size`, `ZeroDivisionError` for
`check_convergence_every = 0` with a tolerance), else (`max_hye_size`, parameters). `n ≥ 1` (for `n_iter = 0`
the code fails on the unbound loop variable). -/
def fit (d : Data) (uSup wSup : Option (List (List Rat))) (Dsup : Option Nat)
    (u0 w0 : List (List Rat)) (ru rw : Mat) (sqrtC : Rat) (stop : Option Stop) (n : Nat) : Option (Nat × Params) :=
  match fitMaxSize d Dsup with
  | none => none
  | some D =>
    if stopOk stop then
      some (D, finish d uSup.isSome wSup.isSome (C (dims 2 D)) sqrtC (fitRun d uSup wSup u0 w0 ru rw stop n).p)
    else none

/-! ## one long-lived model object: several calls of `fit`, queries in between

Every definition above is a pure function of its arguments: a query (`poisson`, `expDegNode`, `expDegAvg`,
`expDimSeq`, `C`, ..) reads nothing but the parameter arrays it is given and its own argument.  What a
`HyMMSBM` instance carries from one call to the next is written down here: the attributes `u`, `w`
(`None` until supplied or first initialised), `max_hye_size`, and the training attributes that `fit` writes.
There is no other state (no cache of hyperedge sums, of the incidence matrix, of the data). -/

/-- the attributes of a `HyMMSBM` instance that its methods read or write -/
structure Obj where
  u : Option (List (List Rat))
  w : Option (List (List Rat))
  /-- `max_hye_size` -/
  D : Option Nat
  /-- `self.tolerance` (the argument of the last call of `fit`) -/
  tolerance : Option Rat := none
  trained : Bool := false
  /-- `training_iter` -/
  it : Option Nat := none
  /-- `tolerance_reached` -/
  reached : Bool := false

/-- `HyMMSBM(u=uSup, w=wSup, max_hye_size=Dsup, ..)` -/
def newObj (uSup wSup : Option (List (List Rat))) (Dsup : Option Nat) : Obj := { u := uSup, w := wSup, D := Dsup }

/-- one call `obj.fit(data, n_iter = n, tolerance, check_convergence_every)` on an object in state `o`, in the
order of the code: `self.tolerance = tolerance; self.tolerance_reached = False`; a parameter that is `None` is
drawn (`u0`, `w0`; one that is set - supplied at construction OR left by an earlier call - counts as fixed); the
size check (`ValueError`: the draws stay stored); the loop (`ZeroDivisionError` of `it % 0` in iteration 0, after
its updates: they stay stored, like the inferred `max_hye_size`); the division; `trained`, `training_iter`.
Result: the object after the call and whether the call returned (`false` = it raised).  `n ≥ 1`. -/
def fitObj (o : Obj) (d : Data) (u0 w0 : List (List Rat)) (ru rw : Mat) (sqrtC : Rat) (stop : Option Stop) (n : Nat) :
    Obj × Bool :=
  let p0 : Params := { u := o.u.getD u0, w := o.w.getD w0 }
  match fitMaxSize d o.D with
  | none => ({ o with u := some p0.u, w := some p0.w, tolerance := stop.map (·.tol), reached := false }, false)
  | some D =>
    if stopOk stop then
      let r := fitRun d o.u o.w u0 w0 ru rw stop n
      let p := finish d o.u.isSome o.w.isSome (C (dims 2 D)) sqrtC r.p
      ({ u := some p.u, w := some p.w, D := some D, tolerance := stop.map (·.tol), trained := true,
         it := some r.it, reached := r.reached }, true)
    else
      let p := emStep d o.u.isSome o.w.isSome ru rw p0
      ({ o with u := some p.u, w := some p.w, D := some D, tolerance := stop.map (·.tol), reached := false }, false)

/-- the arguments of one call of `fit` (data, the draws the generator would deliver, the priors and `sqrt(C())` at the
time of the call, the stopping arguments, `n_iter`) -/
structure FitCall where
  d : Data
  u0 : List (List Rat)
  w0 : List (List Rat)
  ru : Mat
  rw : Mat
  sqrtC : Rat
  stop : Option Stop
  n : Nat

def callFit (o : Obj) (c : FitCall) : Obj := (fitObj o c.d c.u0 c.w0 c.ru c.rw c.sqrtC c.stop c.n).1

/-- a session: the calls of `fit` made on one object, in order (calls that raise included) -/
def runSession (o : Obj) (cs : List FitCall) : Obj := cs.foldl callFit o

/-- `obj.poisson_params(B)` for one column `e` of `B`: `None` = `ValueError` ("not initialized"); the answer is
`poisson` of the CURRENT arrays and of `e` - nothing else of the object is read -/
def poisObj (o : Obj) (e : List Nat) : Option Rat :=
  match o.u, o.w with
  | some u, some w => some (poisson u.length w.length (matOf u) (matOf w) e)
  | _, _ => none

/-- `obj._edge_sum(B)` for one column -/
def edgeSumObj (o : Obj) (e : List Nat) : Option (List Rat) :=
  match o.u, o.w with
  | some u, some w => some ((List.range w.length).map (edgeSum u.length (matOf u) e))
  | _, _ => none

/-! ## arrays from the wire -/

def dataOf (N K : Nat) (edges : List (List Nat)) (A : List Rat) : Data :=
  { N := N, K := K, E := edges.length, edge := fun e => edges.getD e [], A := fun e => A.getD e 0 }

end C15
