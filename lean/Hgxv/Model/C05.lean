import Hgxv.Model.AList
/-! Content-level model of `Hypergraph` / `DirectedHypergraph` and of the extraction functions
`subhypergraph`, `subhypergraph_by_orders`, `get_edges(subhypergraph=True)`,
`subhypergraph_largest_component`, `copy` (hypergraphx/core/hypergraph.py,
hypergraphx/core/directed_hypergraph.py).  Core Lean only.

A `Content κ` is what the public API shows of an object: the weighted flag, the nodes (insertion
ordered, with their metadata), the hyperedges (insertion ordered, canonical key ↦ weight and
metadata), the incidence metadata, the empty edges and the hypergraph-level metadata.  `κ = UKey` (sorted node tuple) for `Hypergraph`, `κ = DKey` (sorted sources, sorted
targets) for `DirectedHypergraph`.  Weights are integer multiples of a quantum (1/4); the weight
`1` the code uses for "no weight given" is `unitW`.  Metadata are association lists of tokens.

The extraction functions are written the way the Python builds them: a fresh object, `add_node`
for nodes, then the selected keys re-inserted one by one with `get_weight` / `get_edge_metadata`
of the source.  A Python exception is `none`. -/
namespace C05

abbrev Node := Nat
abbrev Meta := List (Nat × Nat)
abbrev W := Int
/-- the weight `1` in quanta of 1/4 -/
def unitW : W := 4

abbrev UKey := List Nat
abbrev DKey := List Nat × List Nat

/-! ## canonical keys from raw input -/

def insertSorted (a : Nat) : List Nat → List Nat
  | [] => [a]
  | b :: bs => if a ≤ b then a :: b :: bs else b :: insertSorted a bs
/-- `tuple(sorted(edge))` -/
def canonU (raw : List Nat) : UKey := raw.foldr insertSorted []
/-- `(tuple(sorted(source)), tuple(sorted(target)))` -/
def canonD (raw : List Nat × List Nat) : DKey := (canonU raw.1, canonU raw.2)

/-- what the code needs of a hyperedge key: its nodes and its size; for `remove_node` / `clear` also what is left of
a key when a node is taken out, the order in which `remove_node` walks the hyperedges of a node, and which tables
`clear()` empties -/
class Keyed (κ : Type) where
  members : κ → List Node
  size : κ → Nat
  /-- token of the class name the constructor writes into the hypergraph-level metadata (`"type"`) -/
  typeTok : Nat
  /-- `remove_node(node, keep_edges=True)`: the hyperedge that is re-inserted for an incident hyperedge
  (`none`: nothing is re-inserted, the hyperedge just disappears) -/
  without : Node → κ → Option κ
  /-- the hyperedges `remove_node(node)` walks, in its order, out of the hyperedge listing -/
  incident : Node → List κ → List κ
  /-- the node occurs twice in the key (`DirectedHypergraph`: source and target of the same hyperedge) -/
  twice : Node → κ → Bool
  /-- `clear()` also empties the hypergraph-level metadata and the empty edges -/
  clearsHyper : Bool

/-- `Hypergraph.remove_node`: `tuple(sorted(n for n in edge if n != node))` (the node-less `()` included), the
hyperedges in the order of `self._adj[node]`; `Hypergraph.clear()` empties every table -/
instance : Keyed UKey :=
  { members := fun k => k, size := fun k => k.length, typeTok := 0,
    without := fun n k => some (canonU (k.filter (fun m => m ≠ n))),
    incident := fun n ks => ks.filter (fun k => decide (n ∈ k)),
    twice := fun _ _ => false,
    clearsHyper := true }
/-- `_get_edge_size(edge) = len(edge[0]) + len(edge[1])`; nodes are linked sources first.
`DirectedHypergraph.remove_node(keep_edges=True)` re-inserts `(source - node, target - node)` only `if source and target`,
walks `get_source_edges(node) + get_target_edges(node)`; `DirectedHypergraph.clear()` leaves `_hypergraph_metadata` alone -/
instance : Keyed DKey :=
  { members := fun k => k.1 ++ k.2, size := fun k => k.1.length + k.2.length, typeTok := 1,
    without := fun n k =>
      let s := k.1.filter (fun m => m ≠ n)
      let t := k.2.filter (fun m => m ≠ n)
      if s.isEmpty || t.isEmpty then none else some (canonD (s, t)),
    incident := fun n ks => ks.filter (fun k => decide (n ∈ k.1)) ++ ks.filter (fun k => decide (n ∈ k.2)),
    twice := fun n k => decide (n ∈ k.1) && decide (n ∈ k.2),
    clearsHyper := false }

/-- the key under which `set_incidence_metadata(edge, node, md)` stores: `(edge, node)` where `edge` is the
tuple AS GIVEN for `Hypergraph` (not sorted; rendered `(raw, [])`) and the canonical pair for
`DirectedHypergraph` -/
abbrev IncKey := (List Nat × List Nat) × Node

/-- attribute tokens of the two entries the constructor puts into the hypergraph-level metadata -/
def attrWeighted : Nat := 100
def attrType : Nat := 101

structure Content (κ : Type) where
  weighted : Bool
  nodes : List (Node × Meta)
  edges : List (κ × (W × Meta))
  /-- `_incidences_metadata` (insertion ordered; NOT touched by `remove_edge`, not carried by extractions) -/
  inc : List (IncKey × Meta) := []
  /-- `_empty_edges` (`Hypergraph.add_empty_edge`: name ↦ metadata) -/
  emptyEdges : List (Nat × Meta) := []
  /-- `_hypergraph_metadata` -/
  hmeta : Meta := []
deriving DecidableEq, Repr

variable {κ : Type} [DecidableEq κ] [Keyed κ]

/-- `Hypergraph(weighted=w)` -/
def empty (w : Bool) : Content κ :=
  { weighted := w, nodes := [], edges := [],
    hmeta := [(attrWeighted, if w then 1 else 0), (attrType, Keyed.typeTok κ)] }

/-! ## mutators (`Hypergraph` methods; `DirectedHypergraph` has the same bodies on its keys) -/

/-- `add_node(node, metadata)` on the node table: a new node is stored with `metadata`; an existing
node gets the metadata only when its current metadata is `{}` (`add_node` touches nothing else) -/
def addNodeL (l : List (Node × Meta)) (n : Node) (md : Meta) : List (Node × Meta) :=
  match AL.get? l n with
  | none => l ++ [(n, md)]
  | some cur => if cur = [] then AL.set l n md else l

def addNode (c : Content κ) (n : Node) (md : Meta) : Content κ :=
  { c with nodes := addNodeL c.nodes n md }

/-- `add_nodes(node_list)` (no metadata) / the `for node in edge: self.add_node(node)` loop -/
def touchL (l : List (Node × Meta)) (ns : List Node) : List (Node × Meta) :=
  ns.foldl (fun l n => addNodeL l n []) l

def touchAll (c : Content κ) (ns : List Node) : Content κ :=
  { c with nodes := touchL c.nodes ns }

/-- `set_node_metadata(node, metadata)` (raises when the node is absent) -/
def setNodeMeta (c : Content κ) (n : Node) (md : Meta) : Option (Content κ) :=
  if AL.has c.nodes n then some { c with nodes := AL.set c.nodes n md } else none

/-- `get_node_metadata(node)` -/
def getNodeMeta (c : Content κ) (n : Node) : Option Meta := AL.get? c.nodes n
/-- `get_weight(edge)` -/
def getWeight (c : Content κ) (k : κ) : Option W := (AL.get? c.edges k).map (·.1)
/-- `get_edge_metadata(edge)` -/
def getEdgeMeta (c : Content κ) (k : κ) : Option Meta := (AL.get? c.edges k).map (·.2)

/-- the first test of `add_edge`: an unweighted hypergraph accepts only weight `None` or `1` -/
def weightOk (weighted : Bool) (w : Option W) : Bool :=
  match w with
  | none => true
  | some x => weighted || x == unitW

/-- `add_edge`, branch `edge not in self._edge_list` -/
def addEdgeNew (c : Content κ) (k : κ) (w : W) (md : Meta) : Content κ :=
  touchAll { c with edges := c.edges ++ [(k, (if c.weighted then w else unitW, md))] } (Keyed.members k)

/-- `add_edge`, branch `edge in self._edge_list`: weights add up when weighted, metadata replaced -/
def addEdgeOld (c : Content κ) (k : κ) (w0 w : W) (md : Meta) : Content κ :=
  { c with edges := AL.set c.edges k (if c.weighted then w0 + w else w0, md) }

/-- `add_edge(edge, weight, metadata)` once the weight test has passed (`weight=None` ↦ `1`) -/
def addEdgeCore (c : Content κ) (k : κ) (w : W) (md : Meta) : Content κ :=
  match AL.get? c.edges k with
  | none => addEdgeNew c k w md
  | some v => addEdgeOld c k v.1 w md

/-- `add_edge(edge, weight, metadata)` on a canonical key -/
def addEdge (c : Content κ) (k : κ) (w : Option W) (md : Meta) : Option (Content κ) :=
  if weightOk c.weighted w then some (addEdgeCore c k (w.getD unitW) md) else none

/-- `set_edge_metadata(edge, metadata)` -/
def setEdgeMeta (c : Content κ) (k : κ) (md : Meta) : Option (Content κ) :=
  match AL.get? c.edges k with
  | none => none
  | some v => some { c with edges := AL.set c.edges k (v.1, md) }

/-- `set_weight(edge, weight)` -/
def setWeight (c : Content κ) (k : κ) (w : W) : Option (Content κ) :=
  if !c.weighted && w != unitW then none else
  match AL.get? c.edges k with
  | none => none
  | some v => some { c with edges := AL.set c.edges k (w, v.2) }

/-- `remove_edge(edge)` -/
def removeEdge (c : Content κ) (k : κ) : Option (Content κ) :=
  if AL.has c.edges k then some { c with edges := AL.erase c.edges k } else none

/-- `set_attr_to_node_metadata(node, field, value)` (updates the node's dict in place) -/
def setNodeAttr (c : Content κ) (n : Node) (a v : Nat) : Option (Content κ) :=
  match AL.get? c.nodes n with
  | none => none
  | some md => some { c with nodes := AL.set c.nodes n (AL.set md a v) }

/-- `set_attr_to_edge_metadata(edge, field, value)` (updates the hyperedge's dict in place) -/
def setEdgeAttr (c : Content κ) (k : κ) (a v : Nat) : Option (Content κ) :=
  match AL.get? c.edges k with
  | none => none
  | some x => some { c with edges := AL.set c.edges k (x.1, AL.set x.2 a v) }

/-- `set_incidence_metadata(edge, node, metadata)`: the hyperedge must exist (canonical key `k`); the entry is
stored under the key `(store, n)` (see `IncKey`); the node is not looked at -/
def setIncMeta (c : Content κ) (k : κ) (store : List Nat × List Nat) (n : Node) (md : Meta) : Option (Content κ) :=
  if AL.has c.edges k then some { c with inc := AL.set c.inc (store, n) md } else none

/-- `get_incidence_metadata(edge, node)` (`ValueError` without the hyperedge, `KeyError` without the entry) -/
def getIncMeta (c : Content κ) (k : κ) (store : List Nat × List Nat) (n : Node) : Option Meta :=
  if AL.has c.edges k then AL.get? c.inc (store, n) else none

/-- `get_incidence_metadata(edge, node)[field] = value` (the getter returns the stored dict itself) -/
def setIncAttr (c : Content κ) (k : κ) (store : List Nat × List Nat) (n : Node) (a v : Nat) : Option (Content κ) :=
  match getIncMeta c k store n with
  | none => none
  | some md => some { c with inc := AL.set c.inc (store, n) (AL.set md a v) }

/-- `Hypergraph.add_empty_edge(name, metadata)`: a name that is already there raises -/
def addEmptyEdge (c : Content κ) (name : Nat) (md : Meta) : Option (Content κ) :=
  if AL.has c.emptyEdges name then none else some { c with emptyEdges := c.emptyEdges ++ [(name, md)] }

/-- `set_hypergraph_metadata(metadata)` -/
def setHyperMeta (c : Content κ) (md : Meta) : Content κ := { c with hmeta := md }

/-- `set_attr_to_hypergraph_metadata(field, value)` -/
def setHyperAttr (c : Content κ) (a v : Nat) : Content κ := { c with hmeta := AL.set c.hmeta a v }

/-! ## node batches, node removal, `clear()` -/

/-- `add_nodes(node_list)` / `Hypergraph.add_nodes(node_list, metadata)`: with a metadata table the whole batch is
validated first (every node needs an entry, else `ValueError` and nothing is added), then `add_node(node, metadata[node])`
one by one (so a node that already has non-empty metadata keeps it) -/
def addNodes (c : Content κ) (ns : List Node) (tbl : Option (List (Node × Meta))) : Option (Content κ) :=
  match tbl with
  | none => some (touchAll c ns)
  | some t =>
    if ns.all (fun n => AL.has t n) then some (ns.foldl (fun h n => addNode h n ((AL.get? t n).getD [])) c)
    else none

/-- one round of the `keep_edges=True` loop of `remove_node`:
`self.add_edge(<edge without node>, weight=self.get_weight(edge), metadata=self.get_edge_metadata(edge))` -/
def shrinkInto (n : Node) (h : Content κ) (k : κ) : Option (Content κ) :=
  match Keyed.without n k with
  | none => some h
  | some k' => do
    let w ← getWeight h k
    let md ← getEdgeMeta h k
    addEdge h k' (some w) md

/-- the node is source and target of one hyperedge (never for `Hypergraph`) -/
def onBothSides (c : Content κ) (n : Node) : Bool := (AL.keys c.edges).any (Keyed.twice n)

/-- `remove_node(node, keep_edges)`: `KeyError` for an absent node; with `keep_edges` every incident hyperedge is
re-inserted without the node (weights add up on a hyperedge that exists already, metadata replaced); then the incident
hyperedges are removed one by one; then the node leaves the node table.  Incidence metadata is not touched.
NOT modelled: a node that is source AND target of one directed hyperedge - there the code removes that hyperedge twice,
the second `remove_edge` raises half-way (outside C02's quantifier); the model answers `none` and the correspondence
never sends such a call (harness `on_both_sides`). -/
def removeNode (c : Content κ) (n : Node) (keep : Bool) : Option (Content κ) :=
  if !AL.has c.nodes n then none
  else if onBothSides c n then none
  else do
    let es := Keyed.incident n (AL.keys c.edges)
    let c1 ← if keep then es.foldlM (shrinkInto n) c else some c
    let c2 ← es.foldlM removeEdge c1
    some { c2 with nodes := AL.erase c2.nodes n }

/-- `clear()`: every table is emptied; the weighted flag stays; `DirectedHypergraph.clear()` keeps the
hypergraph-level metadata (`Keyed.clearsHyper`) -/
def clear (c : Content κ) : Content κ :=
  { weighted := c.weighted, nodes := [], edges := [], inc := [],
    emptyEdges := if Keyed.clearsHyper κ then [] else c.emptyEdges,
    hmeta := if Keyed.clearsHyper κ then [] else c.hmeta }

/-! ## histories -/

inductive Op (κ : Type) where
  | addNode (n : Node) (md : Meta)
  | addEdge (k : κ) (w : Option W) (md : Meta)
  | removeEdge (k : κ)
  | setWeight (k : κ) (w : W)
  | setNodeMeta (n : Node) (md : Meta)
  | setEdgeMeta (k : κ) (md : Meta)
  | setNodeAttr (n : Node) (a v : Nat)
  | setEdgeAttr (k : κ) (a v : Nat)
  | setIncMeta (k : κ) (store : List Nat × List Nat) (n : Node) (md : Meta)
  | setIncAttr (k : κ) (store : List Nat × List Nat) (n : Node) (a v : Nat)
  | addEmptyEdge (name : Nat) (md : Meta)
  | setHyperMeta (md : Meta)
  | setHyperAttr (a v : Nat)
  | addNodes (ns : List Node) (tbl : Option (List (Node × Meta)))
  | removeNode (n : Node) (keep : Bool)
  | clear

/-- one call; `none` = the call raised -/
def apply? (c : Content κ) : Op κ → Option (Content κ)
  | .addNode n md => some (addNode c n md)
  | .addEdge k w md => addEdge c k w md
  | .removeEdge k => removeEdge c k
  | .setWeight k w => setWeight c k w
  | .setNodeMeta n md => setNodeMeta c n md
  | .setEdgeMeta k md => setEdgeMeta c k md
  | .setNodeAttr n a v => setNodeAttr c n a v
  | .setEdgeAttr k a v => setEdgeAttr c k a v
  | .setIncMeta k st n md => setIncMeta c k st n md
  | .setIncAttr k st n a v => setIncAttr c k st n a v
  | .addEmptyEdge name md => addEmptyEdge c name md
  | .setHyperMeta md => some (setHyperMeta c md)
  | .setHyperAttr a v => some (setHyperAttr c a v)
  | .addNodes ns tbl => addNodes c ns tbl
  | .removeNode n keep => removeNode c n keep
  | .clear => some (clear c)

/-- a rejected call leaves the object as it was -/
def step (c : Content κ) (op : Op κ) : Content κ := (apply? c op).getD c

def run (c : Content κ) (ops : List (Op κ)) : Content κ := ops.foldl step c

/-! ## selections -/

/-- order-preserving removal of repetitions (`dict.fromkeys(xs)`) -/
def dedup {α : Type} [DecidableEq α] : List α → List α
  | [] => []
  | x :: xs => x :: (dedup xs).filter (fun y => y ≠ x)

/-- `set(edge).issubset(set(nodes))` -/
def inside (ns : List Node) (k : κ) : Bool := (Keyed.members k).all (fun n => ns.contains n)

/-- `len(edge) - 1 == order` / `<= order` -/
def orderTest (upTo : Bool) (order : Int) (k : κ) : Bool :=
  if upTo then ((Keyed.size k : Nat) : Int) - 1 ≤ order else ((Keyed.size k : Nat) : Int) - 1 == order

/-- the hyperedge filter of `get_edges(order, size, up_to)`; `none` = both given (rejected).
`size` wins when given: `order = size - 1` -/
def edgeFilter (order size : Option Int) (upTo : Bool) : Option (κ → Bool) :=
  match order, size with
  | some _, some _ => none
  | none, none => some (fun _ => true)
  | some o, none => some (orderTest upTo o)
  | none, some s => some (orderTest upTo (s - 1))

/-! ## re-insertion of selected keys of a source into a hypergraph under construction -/

/-- `h.add_edge(edge, self.get_weight(edge), self.get_edge_metadata(edge))` when weighted,
`h.add_edge(edge, metadata=self.get_edge_metadata(edge))` when not -/
def reinsert (src h : Content κ) (k : κ) : Option (Content κ) := do
  let w ← getWeight src k
  let md ← getEdgeMeta src k
  addEdge h k (if src.weighted then some w else none) md

/-- `h.add_edges(edges, [self.get_weight(e) for e in edges])` / `h.add_edges(edges)`: every key is
added with empty metadata (the batch validations of `add_edges` - distinct keys, equal lengths -
hold by construction of the two lists) -/
def reinsertBare (src h : Content κ) (k : κ) : Option (Content κ) := do
  let w ← getWeight src k
  addEdge h k (if src.weighted then some w else none) []

/-- `h.set_edge_metadata(edge, self.get_edge_metadata(edge))` -/
def copyEdgeMeta (src h : Content κ) (k : κ) : Option (Content κ) := do
  let md ← getEdgeMeta src k
  setEdgeMeta h k md

/-- `h.set_node_metadata(node, self.get_node_metadata(node))` -/
def copyNodeMeta (src h : Content κ) (n : Node) : Option (Content κ) := do
  let md ← getNodeMeta src n
  setNodeMeta h n md

def keysOf (c : Content κ) : List κ := AL.keys c.edges
def nodesOf (c : Content κ) : List Node := AL.keys c.nodes

/-! ## the extraction functions -/

/-- `Hypergraph.subhypergraph(nodes)` -/
def induced (src : Content κ) (ns : List Node) : Option (Content κ) := do
  let h0 : Content κ := touchAll (empty src.weighted) ns
  let h1 ← ns.foldlM (copyNodeMeta src) h0
  ((keysOf src).filter (inside ns)).foldlM (reinsert src) h1

/-- `Hypergraph.subhypergraph_largest_component(size, order)`; `comp` is what
`largest_component(size, order)` returned (utils/cc.py, modelled in C08) -/
def largestComponentSub (src : Content κ) (comp : List Node) : Option (Content κ) := induced src comp

/-- the `sizes` list of `subhypergraph_by_orders` -/
def sizesArg (orders sizes : Option (List Int)) : Option (List Int) :=
  match orders, sizes with
  | none, none => none
  | some _, some _ => none
  | some os, none => some (os.map (· + 1))
  | none, some ss => some ss

/-- `self.get_edges(size=size)` -/
def keysOfSize (src : Content κ) (s : Int) : List κ := (keysOf src).filter (orderTest false (s - 1))

/-- `Hypergraph.subhypergraph_by_orders(orders, sizes, keep_nodes)` -/
def byOrders (src : Content κ) (orders sizes : Option (List Int)) (keepNodes : Bool) :
    Option (Content κ) := do
  let ss ← sizesArg orders sizes
  let h0 : Content κ := empty src.weighted
  let h1 ← if keepNodes then (nodesOf src).foldlM (copyNodeMeta src) (touchAll h0 (nodesOf src)) else some h0
  let h2 ← ((dedup ss).flatMap (keysOfSize src)).foldlM (reinsert src) h1
  if keepNodes then some h2 else (nodesOf h2).foldlM (copyNodeMeta src) h2

/-- `get_edges(order, size, up_to, subhypergraph=True, keep_isolated_nodes)` -/
def edgesSub (src : Content κ) (order size : Option Int) (upTo keepIso : Bool) :
    Option (Content κ) := do
  let p ← edgeFilter order size upTo
  let ks := (keysOf src).filter p
  let h0 : Content κ := if keepIso then touchAll (empty src.weighted) (nodesOf src) else empty src.weighted
  let h1 ← ks.foldlM (reinsertBare src) h0
  let h2 ← (nodesOf h1).foldlM (copyNodeMeta src) h1
  ks.foldlM (copyEdgeMeta src) h2

/-- `copy()` is `copy.deepcopy(self)`: an equal value that shares nothing -/
def copy (src : Content κ) : Content κ := src

/-! ## several objects side by side: a state array of slots (for source-unchanged / copy independence) -/

abbrev Slots (κ : Type) := List (Nat × Content κ)

/-- a mutation of the object in slot `i` -/
def mutateSlot (sl : Slots κ) (i : Nat) (op : Op κ) : Slots κ :=
  match AL.get? sl i with
  | none => sl
  | some c => AL.set sl i (step c op)

/-- `slot j := f(slot i)` for an extraction `f` (a raised exception assigns nothing) -/
def extractInto (sl : Slots κ) (i j : Nat) (f : Content κ → Option (Content κ)) : Slots κ :=
  match AL.get? sl i with
  | none => sl
  | some c => match f c with
    | none => sl
    | some r => AL.set sl j r

def runSlots (sl : Slots κ) (ops : List (Nat × Op κ)) : Slots κ :=
  ops.foldl (fun sl t => mutateSlot sl t.1 t.2) sl

/-- the mutations addressed to slot `i` -/
def opsFor (i : Nat) (ops : List (Nat × Op κ)) : List (Op κ) :=
  (ops.filter (fun t => t.1 = i)).map (·.2)

end C05
