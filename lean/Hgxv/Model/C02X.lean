import Hgxv.Model.C02
/-! # C02, extension round - `get_edges(..., subhypergraph=True)`, the raw tables, the dunder methods

Core Lean only (compiled into `driver_c02`).  Same `namespace C02`; `Hgxv/Model/C02.lean` is UNCHANGED (C05 / C07 / C08 /
C12 / C19 link files build on it), this file sits on top of it.

* **Extraction** `get_edges(order, size, up_to, subhypergraph=True, keep_isolated_nodes)`: written as the code is, i.e. as the
  list of calls of the PUBLIC MUTATORS (`Op`) that the routine makes on a fresh `DirectedHypergraph(weighted=self._weighted)`:
  `add_nodes(list(self.get_nodes()))` (only with `keep_isolated_nodes`), `add_edges(edges[, [get_weight(e) ...]])`,
  `set_node_metadata(n, self.get_node_metadata(n))` for every node of the NEW object, `set_edge_metadata(e,
  self.get_edge_metadata(e))` for every selected hyperedge (`subProgram`).  A read of `self` that raises, or a call on the new
  object that raises, makes the whole call raise (`none`; Python throws the half-built object away).
  `Spec.sub` is what the property's words say the result is: the selected part of the abstract object, as filter / map.
* `getEdgesCall`: the option check of `get_edges` (`order` and `size` together, `keep_isolated_nodes` without
  `subhypergraph`).
* **Raw tables** `Tables` / `expose`: what `expose_data_structures()`, `get_edge_list()`, `get_adj_dict('source'|'target')`
  hand out - the ten attributes themselves, IN THEIR ORDER (dict insertion order, list order).
* `len`, `iterItems`, `strParts`, `isWeighted`: `__len__`, `__iter__`, `__str__`, `is_weighted`.
* **The whole object** `Full` = `Store` + `_incidences_metadata` (keyed by the CANONICAL hyperedge and the node; the node is
  not checked; never pruned by `remove_edge` / `remove_node`, so an entry of a removed hyperedge shows again when the
  hyperedge is re-inserted; emptied by `clear()`; copied by `copy()`; not carried into a subhypergraph).  `FOp` = every `Op` +
  `set_incidence_metadata`; queries `getInc` (`get_incidence_metadata`: `ValueError` for an absent hyperedge, `KeyError`
  for a missing entry) and `allInc`.  `FSpec` is the same over the abstract object. -/
namespace C02
open AL

/-! ### extraction -/

/-- `DirectedHypergraph(weighted=w)` -/
def fresh (w : Bool) : Store := { weighted := w, hmeta := ctorHMeta none w }

/-- `[f x for x in l]` where `f` may raise -/
def collect {α β : Type} (f : α → Option β) : List α → Option (List β)
  | [] => some []
  | a :: l =>
    match f a, collect f l with
    | some b, some r => some (b :: r)
    | _, _ => none

/-- the calls `add_nodes` / `add_edges` of the routine, given the reads of `self` (`self._weighted`, `self.get_nodes()`,
    `self.get_weight`); `none`: `self.get_weight(edge)` raised -/
def subOps1G (weighted : Bool) (nodeList : List Node) (weightOf : RawEdge → Option Int) (ks : List Key) (keep : Bool) :
    Option (List Op) :=
  let pre : List Op := if keep then [Op.addNodes nodeList] else []
  let es := ks.map RawEdge.ofKey
  if weighted then
    (collect (fun k => weightOf (RawEdge.ofKey k)) ks).map (fun ws => pre ++ [Op.addEdges es (some ws) none])
  else some (pre ++ [Op.addEdges es none none])

/-- `for node in h.get_nodes(): h.set_node_metadata(node, self.get_node_metadata(node))` -/
def subOps2G (nodeMetaOf : Node → Option Meta) (ns : List Node) : Option (List Op) :=
  collect (fun n => (nodeMetaOf n).map (fun md => Op.setNodeMeta n md)) ns

/-- `for edge in edges: h.set_edge_metadata(edge, self.get_edge_metadata(edge))` -/
def subOps3G (edgeMetaOf : RawEdge → Option Meta) (ks : List Key) : Option (List Op) :=
  collect (fun k => (edgeMetaOf (RawEdge.ofKey k)).map (fun md => Op.setEdgeMeta (RawEdge.ofKey k) md)) ks

/-- every call the routine makes on the new object, in order.  `selected` = the hyperedges `get_edges` selected,
    `nodesAfter o1` = `h.get_nodes()` after the calls `o1`. -/
def subProgramG (weighted : Bool) (nodeList : List Node) (weightOf : RawEdge → Option Int)
    (nodeMetaOf : Node → Option Meta) (edgeMetaOf : RawEdge → Option Meta) (nodesAfter : List Op → List Node)
    (selected : Option (List Key)) (keep : Bool) : Option (List Op) :=
  match selected with
  | none => none
  | some ks =>
    match subOps1G weighted nodeList weightOf ks keep with
    | none => none
    | some o1 =>
      match subOps2G nodeMetaOf (nodesAfter o1), subOps3G edgeMetaOf ks with
      | some o2, some o3 => some (o1 ++ o2 ++ o3)
      | _, _ => none

/-- the routine reading the concrete tables -/
def subProgram (s : Store) (f : Filt) (upTo keep : Bool) : Option (List Op) :=
  subProgramG s.weighted (nodes s) (getWeight s) (nodeMeta s) (edgeMeta s)
    (fun o1 => nodes (run (fresh s.weighted) o1)) (edges s f upTo) keep

/-- run a list of calls; `none` as soon as one raises -/
def runOk (s : Store) : List Op → Option Store
  | [] => some s
  | o :: os =>
    match (applyOp s o).2 with
    | .ok => runOk (applyOp s o).1 os
    | .rej => none

/-- `self.get_edges(order, size, up_to, subhypergraph=True, keep_isolated_nodes=keep)`; `none`: the call raised -/
def subHG (s : Store) (f : Filt) (upTo keep : Bool) : Option Store :=
  (subProgram s f upTo keep).bind (runOk (fresh s.weighted))

/-! the same routine on the abstract object (reads and writes of a set of nodes plus a map) -/

def Spec.fresh (w : Bool) : Spec := { weighted := w, hmeta := ctorHMeta none w }

def Spec.subProgram (s : Spec) (f : Filt) (upTo keep : Bool) : Option (List Op) :=
  subProgramG s.weighted s.nodeList s.getWeight s.nodeMeta s.edgeMeta
    (fun o1 => (Spec.run (Spec.fresh s.weighted) o1).nodeList) (s.edgesF f upTo) keep

def Spec.runOk (s : Spec) : List Op → Option Spec
  | [] => some s
  | o :: os =>
    match (Spec.applyOp s o).2 with
    | .ok => Spec.runOk (Spec.applyOp s o).1 os
    | .rej => none

def Spec.subHG (s : Spec) (f : Filt) (upTo keep : Bool) : Option Spec :=
  (Spec.subProgram s f upTo keep).bind (Spec.runOk (Spec.fresh s.weighted))

/-- what `get_edges` returns -/
inductive EdgesAns
  | keys (l : List Key)
  | withMeta (l : List (Key × Meta))
  | hg (h : Store)
  deriving Repr

/-- `get_edges(order, size, up_to, subhypergraph, keep_isolated_nodes, metadata)` with all its options -/
def getEdgesCall (s : Store) (f : Filt) (upTo sub keep md : Bool) : Option EdgesAns :=
  if f.target.isNone then none
  else if !sub && keep then none
  else if sub then (subHG s f upTo keep).map EdgesAns.hg
  else if md then (edgesMeta s f upTo).map EdgesAns.withMeta
  else (edges s f upTo).map EdgesAns.keys

/-- first occurrences, in order (`add_node` creates a row only for a node that has none) -/
def addK (acc : List Node) (n : Node) : List Node := if acc.contains n then acc else acc ++ [n]
def firstOcc (l : List Node) : List Node := l.foldl addK []

/-- the selected part of the abstract object: hyperedges that pass the filter with their weight and metadata; all
    nodes (`keep_isolated_nodes`) or the endpoints of the selected hyperedges, with their metadata -/
def Spec.sub (s : Spec) (f : Filt) (upTo keep : Bool) : Option Spec :=
  f.target.map (fun t =>
    let es := s.edges.filter (fun p => passes t upTo p.1)
    let ends := firstOcc (es.flatMap (fun p => p.1.1 ++ p.1.2))
    { weighted := s.weighted
      nodes := if keep then s.nodes else ends.map (fun n => (n, (get? s.nodes n).getD []))
      edges := es
      hmeta := ctorHMeta none s.weighted })

/-! ### raw tables -/

/-- `expose_data_structures()` (the `type` entry is a constant) -/
structure Tables where
  weighted : Bool
  adjSource : Adj
  adjTarget : Adj
  edgeList : List (Key × Nat)
  weights : List (Nat × Int)
  hmeta : Meta
  nodeMeta : List (Node × Meta)
  edgeMeta : List (Nat × Meta)
  reverse : List (Nat × Key)
  nextId : Nat
  deriving DecidableEq, Repr

def expose (s : Store) : Tables :=
  ⟨s.weighted, s.adjS, s.adjT, s.edgeList, s.weights, s.hmeta, s.nmeta, s.emeta, s.rev, s.nextId⟩

/-- `get_edge_list()` -/
def getEdgeList (s : Store) : List (Key × Nat) := s.edgeList
/-- `get_adj_dict(source_target)`: `true` = 'source', `false` = 'target' -/
def getAdjDict (s : Store) (source : Bool) : Adj := if source then s.adjS else s.adjT

/-! ### dunder methods -/

/-- `len(h)` -/
def len (s : Store) : Nat := s.edgeList.length
/-- `iter(h)`: `(hyperedge, id)` pairs -/
def iterItems (s : Store) : List (Key × Nat) := s.edgeList
/-- the three numbers `str(h)` prints -/
def strParts (s : Store) : Nat × Nat × List (Nat × Nat) := (numNodes s, numEdges s, distSizes s)
/-- `is_weighted()` -/
def isWeighted (s : Store) : Bool := s.weighted

/-! ### the whole object: incidence metadata -/

abbrev IncTable := List ((Key × Node) × Meta)

structure Full where
  base : Store := {}
  inc : IncTable := []
  deriving DecidableEq, Repr

inductive FOp
  | base (o : Op)
  | setInc (e : RawEdge) (n : Node) (md : Meta)
  deriving Repr

/-- `set_incidence_metadata(edge, node, metadata)` given the membership test of the hyperedge table -/
def setIncG (present : Key → Bool) (inc : IncTable) (e : RawEdge) (n : Node) (md : Meta) : IncTable × Out :=
  match canonStrict e with
  | none => (inc, .rej)
  | some k => if present k then (set inc (k, n) md, .ok) else (inc, .rej)

/-- `get_incidence_metadata(edge, node)` -/
def getIncG (present : Key → Bool) (inc : IncTable) (e : RawEdge) (n : Node) : Option Meta :=
  match canonStrict e with
  | none => none
  | some k => if present k then get? inc (k, n) else none

def isClear : Op → Bool
  | .clear => true
  | _ => false

def Full.apply (x : Full) : FOp → Full × Out
  | .base o =>
    let r := applyOp x.base o
    ({ base := r.1, inc := if isClear o then [] else x.inc }, r.2)
  | .setInc e n md =>
    let r := setIncG (fun k => has x.base.edgeList k) x.inc e n md
    ({ x with inc := r.1 }, r.2)

def Full.run (x : Full) : List FOp → Full
  | [] => x
  | o :: os => Full.run (Full.apply x o).1 os

def Full.getInc (x : Full) (e : RawEdge) (n : Node) : Option Meta :=
  getIncG (fun k => has x.base.edgeList k) x.inc e n
/-- `get_all_incidences_metadata()` -/
def Full.allInc (x : Full) : IncTable := x.inc

structure FSpec where
  base : Spec := {}
  inc : IncTable := []
  deriving DecidableEq, Repr

def FSpec.apply (x : FSpec) : FOp → FSpec × Out
  | .base o =>
    let r := Spec.applyOp x.base o
    ({ base := r.1, inc := if isClear o then [] else x.inc }, r.2)
  | .setInc e n md =>
    let r := setIncG (fun k => has x.base.edges k) x.inc e n md
    ({ x with inc := r.1 }, r.2)

def FSpec.run (x : FSpec) : List FOp → FSpec
  | [] => x
  | o :: os => FSpec.run (FSpec.apply x o).1 os

def FSpec.getInc (x : FSpec) (e : RawEdge) (n : Node) : Option Meta :=
  getIncG (fun k => has x.base.edges k) x.inc e n

def fabs (x : Full) : FSpec := { base := abs x.base, inc := x.inc }

end C02
