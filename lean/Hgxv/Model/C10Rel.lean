import Hgxv.Model.C10
/-! Extension of the C10 model (core Lean only): what a reader DOES with the returned objects, the incidence matrix
behind all projections, and the error path of the two line-graph routines.

* `Graph.degreeOf` - networkx `g.degree(v)` on a loop-free graph: the number of vertices `u` with `u in g[v]`.
* `incRow`, `incCol`, `dot`, `nodeGram` (= `B·Bᵀ`), `edgeGram` (= `Bᵀ·B`) for the binary incidence matrix `B` of the
  listing (`B[n][e] = 1` iff node `n` belongs to hyperedge `e`).
* `lineGraphUnknownFrom`, `directedLineGraphUnknown`: the two routines when `distance` is neither `"intersection"`
  nor `"jaccard"`: the local `_distance` returns `None` and `None >= s` raises `TypeError` - but only when a pair is
  actually evaluated. -/
namespace C10

section
variable {ν : Type} [DecidableEq ν]

/-- `u in g[v]` -/
def Graph.hasEdge (g : Graph ν) (v u : ν) : Bool := (AL.get? g.adj (v, u)).isSome

/-- `g.degree(v)` for a loop-free graph: number of vertices adjacent to `v` (every end point of an adjacency entry is a
vertex: `add_edge` creates missing end points) -/
def Graph.degreeOf (g : Graph ν) (v : ν) : Nat := (AL.keys g.nodes).countP (fun u => g.hasEdge v u)

/-- `[d for _, d in g.degree()]` in vertex order -/
def Graph.degrees (g : Graph ν) : List Nat := (AL.keys g.nodes).map g.degreeOf
end

/-! ### the binary incidence matrix and its two Gram matrices -/

/-- row of node `n`: one 0/1 entry per hyperedge -/
def incRow (es : List Edge) (n : Nat) : List Nat := es.map (fun e => if e.contains n then 1 else 0)
/-- column of hyperedge `e`: one 0/1 entry per node -/
def incCol (nodes : List Nat) (e : Edge) : List Nat := nodes.map (fun n => if e.contains n then 1 else 0)
/-- `B`, rows in `get_nodes()` order, columns in `get_edges()` order -/
def incMatrix (nodes : List Nat) (es : List Edge) : List (List Nat) := nodes.map (incRow es)

def dot (a b : List Nat) : Nat := (List.zipWith (· * ·) a b).sum

/-- `(B·Bᵀ)[u][v]` -/
def cooc (es : List Edge) (u v : Nat) : Nat := dot (incRow es u) (incRow es v)
/-- `(Bᵀ·B)[a][b]` -/
def overlap (nodes : List Nat) (a b : Edge) : Nat := dot (incCol nodes a) (incCol nodes b)

/-- `B·Bᵀ` (nodes × nodes) -/
def nodeGram (nodes : List Nat) (es : List Edge) : List (List Nat) := nodes.map (fun u => nodes.map (cooc es u))
/-- `Bᵀ·B` (hyperedges × hyperedges) -/
def edgeGram (nodes : List Nat) (es : List Edge) : List (List Nat) := es.map (fun a => es.map (overlap nodes a))

/-! ### `distance` is none of the two known strings -/

/-- innermost loop body of `line_graph` when `_distance` returns `None`: a pair that is already in `vis` is skipped,
any other pair reaches `None >= s` (`TypeError`, `none`) -/
def lgVisitUnknown (es : List Edge) (st : LG) (p : Edge × Edge) : Option LG :=
  if st.vis.contains (pairKey (idOf es p.1) (idOf es p.2)) then some st else none

def lineGraphUnknownFrom (es : List Edge) (adj : List (List Edge)) : Option LG :=
  (adj.flatMap pairsOf).foldlM (lgVisitUnknown es) { vis := [], g := emptyOn es.length }

def lineGraphUnknown (nodes : List Nat) (es : List Edge) : Option LG :=
  lineGraphUnknownFrom es (nodes.map (incident es))

/-- loop body of `directed_line_graph` when `_distance` returns `None` -/
def dlgVisitUnknown (g : Graph Nat) (p : DEdge × DEdge) : Option (Graph Nat) :=
  if p.1 = p.2 then some g else none

def directedLineGraphUnknown (es : List DEdge) : Option (Graph Nat) :=
  (allOrdered es).foldlM dlgVisitUnknown (emptyOn es.length)

end C10
