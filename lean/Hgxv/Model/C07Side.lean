import Hgxv.Model.C07Dumps
/-! # C07 — the tables of the four classes that `expose_attributes_for_hashing` does NOT read (core Lean only)

`_incidences_metadata` (Hypergraph, DirectedHypergraph, TemporalHypergraph: `set_incidence_metadata`) and the
registry `_empty_edges` (Hypergraph: `add_empty_edge`) are part of the object, are copied, saved and cleared, but are
no part of the hashed view.  `Obj κ` = the hashing tables of `Model/C07.lean` plus these two; `OOp` = the old
operations plus the two setters; `ostep` / `orun` as the code runs them. -/
namespace C07
open AL

/-- what differs between the classes on the side tables -/
class SideKind (κ : Type) where
  /-- the class has `set_incidence_metadata` (Multiplex has not: AttributeError) -/
  hasInc : Bool
  /-- Hypergraph stores the incidence record under the edge AS PASSED, the others under the canonical key -/
  incRaw : Bool
  /-- `clear()` empties `_incidences_metadata` (Hypergraph, Directed; Temporal leaves it) -/
  clearInc : Bool
  /-- the class has `add_empty_edge` / `_empty_edges` (Hypergraph only) -/
  hasEmpty : Bool

instance : SideKind KH := { hasInc := true, incRaw := true, clearInc := true, hasEmpty := true }
instance : SideKind KD := { hasInc := true, incRaw := false, clearInc := true, hasEmpty := false }
instance : SideKind KT := { hasInc := true, incRaw := false, clearInc := false, hasEmpty := false }
instance : SideKind KM := { hasInc := false, incRaw := false, clearInc := false, hasEmpty := false }

structure Obj (κ : Type) where
  base : Tables κ
  inc : List ((κ × Nat) × JTree) := []       -- `_incidences_metadata`: (edge key as stored, node) ↦ record
  empties : List (String × JTree) := []      -- `_empty_edges`: name ↦ record

inductive OOp (κ : Type) where
  | base (op : Op κ)
  | setInc (raw : κ) (n : Nat) (md : JTree)
  | addEmpty (name : String) (md : JTree)

variable {κ : Type} [Kind κ] [SideKind κ]

/-- `set_incidence_metadata(edge, node, metadata)`: ValueError unless the canonical key is a hyperedge; the node is
not looked at; an earlier record of the pair is replaced -/
def setInc (o : Obj κ) (raw : κ) (n : Nat) (md : JTree) : Obj κ × Bool :=
  if SideKind.hasInc κ && has o.base.edgeList (Kind.canonK raw) then
    ({ o with inc := set o.inc (if SideKind.incRaw κ then raw else Kind.canonK raw, n) md }, true)
  else (o, false)

/-- `add_empty_edge(name, metadata)`: a new name is registered, a known one raises -/
def addEmpty (o : Obj κ) (name : String) (md : JTree) : Obj κ × Bool :=
  if SideKind.hasEmpty κ && !has o.empties name then ({ o with empties := set o.empties name md }, true)
  else (o, false)

/-- what a call of the old API does to the side tables: only `clear()` touches them -/
def sideAfter (o : Obj κ) : Op κ → List ((κ × Nat) × JTree) × List (String × JTree)
  | .clear => (if SideKind.clearInc κ then [] else o.inc, if SideKind.hasEmpty κ then [] else o.empties)
  | _ => (o.inc, o.empties)

def ostep (o : Obj κ) : OOp κ → Obj κ × Bool
  | .base op => ({ base := (step o.base op).1, inc := (sideAfter o op).1, empties := (sideAfter o op).2 }, (step o.base op).2)
  | .setInc raw n md => setInc o raw n md
  | .addEmpty name md => addEmpty o name md

def orun (o : Obj κ) (ops : List (OOp κ)) : Obj κ := ops.foldl (fun s op => (ostep s op).1) o

/-- the calls of a history that belong to the old API -/
def OOp.toBase? : OOp κ → Option (Op κ)
  | .base op => some op
  | _ => none

/-- a freshly constructed object -/
def oinit (κ : Type) [Kind κ] (weighted : Bool) (hm : List (String × JTree)) : Obj κ := { base := init κ weighted hm }

/-- `hash_hypergraph` of an object: the text of its hashing tables -/
def hashTextObj (f : Fmt) (o : Obj κ) : Option String := hashText f o.base

end C07
