import Hgxv.Model.C04
/-! # C04 - abstract specification: a map from (node set, layer) to (weight, metadata)

`Spec` is what the property names: nodes with their metadata, a duplicate-free association list from keys
`(sorted node list, layer)` to `(weight, metadata)`, the weighted flag, the hypergraph metadata and the
registry of layers seen.  No ids, no reverse table, no adjacency.  `specStep` is the map update each public
call stands for; queries are filters over the association list.  `abs : Store → Spec` forgets the ids.
Core Lean only (the driver runs `Spec` next to `Store` and reports any difference). -/
namespace C04

structure Spec where
  weighted : Bool := false
  nodes : List (Node × Meta) := []
  edges : List (Key × (Int × Meta)) := []
  hmeta : HMeta := []
  layers : List Layer := []
  deriving Repr

namespace Spec

def init (w : Bool) (hm : HMeta := []) : Spec :=
  { weighted := w, hmeta := AL.set (AL.set hm hkWeighted (tokBool w)) hkType tokMultiplex }

/-- a node appears with `{}`; empty metadata is replaced by the given one -/
def addNode (sp : Spec) (n : Node) (md : Option Meta) : Spec :=
  match AL.get? sp.nodes n with
  | none => { sp with nodes := AL.set sp.nodes n (md.getD []) }
  | some [] => { sp with nodes := AL.set sp.nodes n (md.getD []) }
  | some _ => sp

def addNodes (sp : Spec) (ns : List Node) (mds : Option (List (Node × Meta))) : Spec × Out :=
  match mds with
  | none => (ns.foldl (fun sp n => addNode sp n none) sp, .ok)
  | some d =>
    if ns.all (fun n => (AL.get? d n).isSome) then (ns.foldl (fun sp n => addNode sp n (AL.get? d n)) sp, .ok)
    else (sp, .rej)

def touchNodes (sp : Spec) (ns : List Node) : Spec := ns.foldl (fun sp n => addNode sp n none) sp

/-- new entry of a key: fresh, or merged with the old one (weights add when weighted, metadata replaced) -/
def mergeEntry (weighted : Bool) (old : Option (Int × Meta)) (w : Int) (md : Meta) : Int × Meta :=
  match old with
  | none => (w, md)
  | some (w0, _) => (if weighted then w0 + w else w0, md)

/-- the map update of an accepted insertion -/
def addEdgeCore (sp : Spec) (raw : List Node) (l : Layer) (w : Int) (md : Meta) : Spec :=
  touchNodes { sp with layers := addLayer sp.layers l,
                       edges := AL.set sp.edges (canon raw, l) (mergeEntry sp.weighted (AL.get? sp.edges (canon raw, l)) w md) }
    (canon raw)

def addEdge (sp : Spec) (raw : List Node) (l : Layer) (w : Option Int) (md : Option Meta) : Spec × Out :=
  if !sp.weighted && w.getD one != one then (sp, .rej) else (addEdgeCore sp raw l (w.getD one) (md.getD []), .ok)

def addEdgesLoop (sp : Spec) : List (List Node × Layer) → List (Option Int) → List (Option Meta) → Spec
  | (raw, l) :: es, w :: ws, md :: mds => addEdgesLoop (addEdge sp raw l w md).1 es ws mds
  | _, _, _ => sp

def addEdges (sp : Spec) (raws : List (List Node)) (ls : List Layer) (ws : Option (List Int))
    (mds : Option (List Meta)) : Spec × Out :=
  let n := raws.length
  if ls.length < n then (sp, .rej)
  else if !(mdsLenOK mds n) then (sp, .rej)
  else
    let mdl : List (Option Meta) := match mds with | some m => m.map some | none => List.replicate n none
    match ws with
    | some wl =>
      if ¬ (raws.zip ls).Nodup then (sp, .rej)
      else if wl.length ≠ n then (sp, .rej)
      else (addEdgesLoop { sp with weighted := true } (raws.zip ls) (wl.map some) mdl, .ok)
    | none => (addEdgesLoop sp (raws.zip ls) (List.replicate n none) mdl, .ok)

def removeEdge (sp : Spec) (raw : List Node) (l : Layer) : Spec × Out :=
  if (AL.get? sp.edges (canon raw, l)).isSome then ({ sp with edges := del sp.edges (canon raw, l) }, .ok)
  else (sp, .rej)

def dropNode (sp : Spec) (n : Node) : Spec := { sp with nodes := del sp.nodes n }

def dropKey (sp : Spec) (k : Key) : Spec := { sp with edges := del sp.edges k }

/-- the record with key `k = (e, l)` loses node `n`: it moves to key `(e \ n, l)` (merging like an insertion,
with its weight and metadata) or disappears when no node is left -/
def shrinkKey (sp : Spec) (n : Node) (k : Key) : Spec :=
  match AL.get? sp.edges k with
  | none => sp
  | some (w, md) =>
    if (k.1.filter (· ≠ n)).isEmpty then dropKey sp k
    else (addEdge (dropKey sp k) (k.1.filter (· ≠ n)) k.2 (some w) (some md)).1

/-- `keep = false`: every record containing `n` disappears; `keep = true`: every such record loses `n`;
then the node itself (and its metadata) disappears -/
def removeNode (sp : Spec) (n : Node) (keep : Bool) : Spec × Out :=
  if (AL.get? sp.nodes n).isSome then
    (dropNode (if keep then ((AL.keys sp.edges).filter (fun k => decide (n ∈ k.1))).foldl (fun sp k => shrinkKey sp n k) sp
               else { sp with edges := sp.edges.filter (fun r => !decide (n ∈ r.1.1)) }) n, .ok)
  else (sp, .rej)

def setWeight (sp : Spec) (raw : List Node) (l : Layer) (w : Int) : Spec × Out :=
  if !sp.weighted && w != one then (sp, .rej) else
  match AL.get? sp.edges (canon raw, l) with
  | none => (sp, .rej)
  | some (_, md) => ({ sp with edges := AL.set sp.edges (canon raw, l) (w, md) }, .ok)

def setAttrNode (sp : Spec) (n : Node) (k v : Nat) : Spec × Out :=
  match AL.get? sp.nodes n with
  | none => (sp, .rej)
  | some md => ({ sp with nodes := AL.set sp.nodes n (AL.set md k v) }, .ok)

def delAttrNode (sp : Spec) (n : Node) (k : Nat) : Spec × Out :=
  match AL.get? sp.nodes n with
  | none => (sp, .rej)
  | some md => if (AL.get? md k).isSome then ({ sp with nodes := AL.set sp.nodes n (del md k) }, .ok) else (sp, .rej)

def setAttrEdge (sp : Spec) (raw : List Node) (l : Layer) (k v : Nat) : Spec × Out :=
  match AL.get? sp.edges (canon raw, l) with
  | none => (sp, .rej)
  | some (w, md) => ({ sp with edges := AL.set sp.edges (canon raw, l) (w, AL.set md k v) }, .ok)

def delAttrEdge (sp : Spec) (raw : List Node) (l : Layer) (k : Nat) : Spec × Out :=
  match AL.get? sp.edges (canon raw, l) with
  | none => (sp, .rej)
  | some (w, md) =>
    if (AL.get? md k).isSome then ({ sp with edges := AL.set sp.edges (canon raw, l) (w, del md k) }, .ok)
    else (sp, .rej)

def step (sp : Spec) : Op → Spec × Out
  | .addNode n md => (addNode sp n md, .ok)
  | .addNodes ns mds => addNodes sp ns mds
  | .addEdge raw l w md => addEdge sp raw l w md
  | .addEdges raws ls ws mds => addEdges sp raws ls ws mds
  | .removeEdge raw l => removeEdge sp raw l
  | .removeNode n keep => removeNode sp n keep
  | .setWeight raw l w => setWeight sp raw l w
  | .setHMeta hm => ({ sp with hmeta := hm }, .ok)
  | .setAttrH k v => ({ sp with hmeta := AL.set sp.hmeta k v }, .ok)
  | .setLayerMeta l v => ({ sp with hmeta := AL.set sp.hmeta (hkLayer l) v }, .ok)
  | .setDatasetMeta v => ({ sp with hmeta := AL.set sp.hmeta hkDataset v }, .ok)
  | .setAttrNode n k v => setAttrNode sp n k v
  | .delAttrNode n k => delAttrNode sp n k
  | .setAttrEdge raw l k v => setAttrEdge sp raw l k v
  | .delAttrEdge raw l k => delAttrEdge sp raw l k

def run (sp : Spec) (ops : List Op) : Spec := ops.foldl (fun sp op => (step sp op).1) sp

/-! ## queries -/
def nodeList (sp : Spec) : List Node := AL.keys sp.nodes
def records (sp : Spec) : List Key := AL.keys sp.edges
def getWeight (sp : Spec) (raw : List Node) (l : Layer) : Option Int := (AL.get? sp.edges (canon raw, l)).map (·.1)
def getEdgeMeta (sp : Spec) (raw : List Node) (l : Layer) : Option Meta := (AL.get? sp.edges (canon raw, l)).map (·.2)
def edgesMeta (sp : Spec) : List (Key × Meta) := sp.edges.map (fun r => (r.1, r.2.2))
def incident (sp : Spec) (n : Node) (f : Filt) : Option (List Key) :=
  if (AL.get? sp.nodes n).isSome then
    if f = .both then none else some ((records sp).filter (fun k => decide (n ∈ k.1) && sizeOK f k.1))
  else none
def degree (sp : Spec) (n : Node) (f : Filt) : Option Nat := (incident sp n f).map List.length
def degreeSeq (sp : Spec) (f : Filt) : Option (List (Node × Nat)) :=
  if f = .both then none else (nodeList sp).mapM (fun n => (degree sp n f).map (fun d => (n, d)))
def layerMeta (sp : Spec) (l : Layer) : Option Nat := AL.get? sp.hmeta (hkLayer l)
def datasetMeta (sp : Spec) : Option Nat := AL.get? sp.hmeta hkDataset
/-- layers that currently hold a record -/
def layersInUse (sp : Spec) : List Layer := sp.edges.map (·.1.2)

/-! ## aggregation, declaratively -/

/-- distinct elements in order of first occurrence -/
def distinct (l : List Edge) : List Edge := l.foldl (fun acc a => if a ∈ acc then acc else acc ++ [a]) []

/-- Σ over layers of the weight of node set `e` -/
def sumW (sp : Spec) (e : Edge) : Int := ((sp.edges.filter (fun r => r.1.1 = e)).map (·.2.1)).sum

/-- metadata of the last record (in insertion order) with node set `e` - what repeated `add_edge` leaves -/
def lastMeta (sp : Spec) (e : Edge) : Meta :=
  ((sp.edges.filter (fun r => r.1.1 = e)).map (·.2.2)).getLast?.getD []

/-- same nodes and node metadata; the distinct node sets of all layers; weight = Σ of the per-layer weights
when weighted, 1 when not -/
def aggregated (sp : Spec) : HSpec :=
  { weighted := sp.weighted
    hmeta := AL.set (AL.set sp.hmeta hkWeighted (tokBool sp.weighted)) hkType tokHypergraph
    nodes := sp.nodes
    edges := (distinct (sp.edges.map (·.1.1))).map
      (fun e => (e, (if sp.weighted then sumW sp e else one, lastMeta sp e))) }

def overlap (sp : Spec) (raw : List Node) : Int := sumW sp (canon raw)

end Spec

/-- forget ids, reverse table and adjacency -/
def abs (s : Store) : Spec :=
  { weighted := s.weighted
    nodes := s.nmeta
    edges := s.edgeList.map (fun (p : Key × Nat) =>
      (p.1, ((AL.get? s.weights p.2).getD one, (AL.get? s.emeta p.2).getD [])))
    hmeta := s.hmeta
    layers := s.layers }

end C04
