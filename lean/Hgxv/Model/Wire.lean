/-! Line-protocol helpers shared by all drivers (core Lean only).

Wire format conventions (the Python side is `harness/hgxv.py`):
* a line is a list of space-separated tokens, the first one is the command;
* `Nat`/`Int` in decimal, `Rat` as `p/q` or `p`;
* a list of numbers is comma-separated (`1,2,3`), the empty list is `-`;
* a list of lists is `;`-separated (`1,2;3`), the empty outer list is `-`, an empty inner list is `_`;
* one more nesting level uses `|`.
Answers are printed with the same conventions. -/
namespace Wire

def tokens (line : String) : List String :=
  (line.trimAscii.toString.splitOn " ").filter (· ≠ "")

def nat? (s : String) : Option Nat := s.toNat?
def int? (s : String) : Option Int := s.toInt?

def rat? (s : String) : Option Rat :=
  match s.splitOn "/" with
  | [p] => (p.toInt?).map (fun (i : Int) => (i : Rat))
  | [p, q] => do
      let a ← p.toInt?
      let b ← q.toNat?
      if b = 0 then none else some ((a : Rat) / (b : Rat))
  | _ => none

def listOf? {α} (sep : String) (empty : String) (f : String → Option α) (s : String) : Option (List α) :=
  if s = empty then some [] else (s.splitOn sep).mapM f

def nats? (s : String) : Option (List Nat) := listOf? "," "-" nat? s
def ints? (s : String) : Option (List Int) := listOf? "," "-" int? s
def rats? (s : String) : Option (List Rat) := listOf? "," "-" rat? s
/-- inner lists: `_` is the empty inner list -/
def natsInner? (s : String) : Option (List Nat) := listOf? "," "_" nat? s
def intsInner? (s : String) : Option (List Int) := listOf? "," "_" int? s
def ratsInner? (s : String) : Option (List Rat) := listOf? "," "_" rat? s
def natss? (s : String) : Option (List (List Nat)) := listOf? ";" "-" natsInner? s
def intss? (s : String) : Option (List (List Int)) := listOf? ";" "-" intsInner? s
def ratss? (s : String) : Option (List (List Rat)) := listOf? ";" "-" ratsInner? s
def natsss? (s : String) : Option (List (List (List Nat))) :=
  listOf? "|" "-" (listOf? ";" "_" natsInner?) s

def showRat (r : Rat) : String :=
  if r.den = 1 then toString r.num else toString r.num ++ "/" ++ toString r.den

def showList {α} (sep : String) (empty : String) (f : α → String) (l : List α) : String :=
  if l.isEmpty then empty else sep.intercalate (l.map f)

def showNats (l : List Nat) : String := showList "," "-" toString l
def showInts (l : List Int) : String := showList "," "-" toString l
def showRats (l : List Rat) : String := showList "," "-" showRat l
def showNatss (l : List (List Nat)) : String := showList ";" "-" (showList "," "_" toString) l
def showIntss (l : List (List Int)) : String := showList ";" "-" (showList "," "_" toString) l
def showRatss (l : List (List Rat)) : String := showList ";" "-" (showList "," "_" showRat) l
def showBool (b : Bool) : String := if b then "1" else "0"

/-- insertion sort on naturals (used to canonicalise answers) -/
def insertSorted (a : Nat) : List Nat → List Nat
  | [] => [a]
  | b :: bs => if a ≤ b then a :: b :: bs else b :: insertSorted a bs
def sortNats (l : List Nat) : List Nat := l.foldr insertSorted []

/-- lexicographic order on lists of naturals, used to sort listings of hyperedges -/
def lexLe : List Nat → List Nat → Bool
  | [], _ => true
  | _ :: _, [] => false
  | a :: as, b :: bs => if a < b then true else if b < a then false else lexLe as bs

def insertLex (a : List Nat) : List (List Nat) → List (List Nat)
  | [] => [a]
  | b :: bs => if lexLe a b then a :: b :: bs else b :: insertLex a bs
def sortLex (l : List (List Nat)) : List (List Nat) := l.foldr insertLex []

/-- generic driver loop: `step` maps a state and a tokenised line to a new state and an answer -/
partial def loop {σ} (step : σ → List String → σ × String) (s : σ) (inp out : IO.FS.Stream) : IO Unit := do
  let line ← inp.getLine
  if line.isEmpty then return ()
  let (s', o) := step s (tokens line)
  out.putStrLn o
  out.flush
  loop step s' inp out

def run {σ} (step : σ → List String → σ × String) (init : σ) : IO Unit := do
  loop step init (← IO.getStdin) (← IO.getStdout)

end Wire
