import Hgxv.Model.C11Tables
/-! # C11 - model of `hypergraphx/motifs` (core Lean only)

* patterns on `n` labelled nodes (positions `0..n-1`) are bit masks over `hyperedges n`
  (the list `A` of `generate_motifs`: all node subsets of size `n, n-1, .., 2`, each size in
  `itertools.combinations` order); bit `i` = hyperedge `i` present (the `power_set` mask);
* `genClasses n`, `labeling n`, `orbit n c` follow `utils.generate_motifs`, `connected` follows
  `utils._is_connected`, `applyPerm (edgePerm ..)` follows `utils.relabel`;
* `fullSets / notFullSets / esuSets` are the node subsets handed to `count_motif` by
  `_motifs_ho_full`, `_motifs_ho_not_full`, `_motifs_standard` (ESU); `census` merges the passes
  by the per-class maximum as `motifs.compute_motifs` does;
* `dirCensus` follows `directed_motifs.compute_directed_motifs` with
  `_directed_motifs_ho_full/_not_full`.

Hyperedges are lists of `Nat` in increasing order (the `Hypergraph` class stores
`tuple(sorted(edge))`), a hypergraph is the list of its distinct hyperedges in insertion order. -/
namespace C11

/-! ## labelled pattern of a node subset (`count_motif`) -/

def toMask : List Bool → Nat
  | [] => 0
  | b :: bs => (if b then 1 else 0) + 2 * toMask bs

/-- which sub-hyperedges of the sorted node list `S` are in the table `T` -/
def patBits (n : Nat) (T : HG) (S : List Nat) : List Bool := (hyperedgesOf n S).map fun e => T.contains e
/-- `labeled_motif` as a mask -/
def pattern (n : Nat) (T : HG) (S : List Nat) : Nat := toMask (patBits n T S)

/-! ## pass 1: `_motifs_ho_full` -/

def fullSets (n : Nat) (E : HG) : List (List Nat) := E.filter (·.length == n)
def fullPats (n : Nat) (E : HG) : List Nat := (fullSets n E).map (pattern n E)

/-! ## pass 2: `_motifs_ho_not_full` -/

/-- `tuple(sorted(set(e + e_i)))` -/
def unionSet (a b : List Nat) : List Nat := isort (dedup (a ++ b))
/-- hyperedges kept by the pass (`len(e) >= N` are skipped) -/
def smaller (n : Nat) (E : HG) : HG := E.filter (·.length < n)
/-- `graph[x]` -/
def incident (n : Nat) (E : HG) (x : Nat) : HG := (smaller n E).filter (·.contains x)
/-- the candidate node sets in loop order: hyperedge of size `n-1`, a node `x` of it, a hyperedge of `graph[x]` -/
def nfCands (n : Nat) (E : HG) : List (List Nat) :=
  (E.filter (·.length + 1 == n)).flatMap fun e => e.flatMap fun x => (incident n E x).map (unionSet e)
/-- the `visited` bookkeeping: a candidate of size `n` not seen before is recorded and counted -/
def visitNew (n : Nat) : List (List Nat) → List (List Nat) → List (List Nat)
  | _, [] => []
  | vis, s :: rest =>
    if s.length == n && !vis.contains s then s :: visitNew n (s :: vis) rest else visitNew n vis rest
def notFullSets (n : Nat) (E : HG) (vis : List (List Nat)) : List (List Nat) := visitNew n vis (nfCands n E)
def notFullPats (n : Nat) (E : HG) (vis : List (List Nat)) : List Nat :=
  (notFullSets n E vis).map (pattern n (smaller n E))

/-! ## pass 3: `_motifs_standard` (ESU on the dyadic skeleton) -/

def dyadic (E : HG) : HG := E.filter (·.length == 2)
/-- `graph[w]` of the dyadic skeleton (the code uses it only through `set(..)`, `in` and `for`-loops that
feed sets, so first occurrences are kept; with distinct hyperedges there are no repetitions anyway) -/
def nbrs (E : HG) (w : Nat) : List Nat :=
  dedup ((dyadic E).flatMap fun e => if e.contains w then e.filter (· != w) else [])
/-- `graph.keys()` -/
def roots (E : HG) : List Nat := dedup ((dyadic E).flatMap id)

section esu
variable (N : Nat) (g : Nat → List Nat) (v : Nat)

/-- exclusive neighbours of `w` that enter the extension set
(`u not in sub and u not in n_sub and u > v`; `tmp` is a set) -/
def newExcl (sub rest nsub : List Nat) (w : Nat) : List Nat :=
  (g w).filter (fun u => decide (u ∉ sub) && decide (u ∉ nsub) && decide (v < u) && decide (u ∉ rest))

/-- `graph_extend(sub, ext, v, n_sub)`; returns the node sets handed to `count_motif`.
Python pops an arbitrary element of the set `ext`, the model pops the head of the list. -/
def extend (sub ext nsub : List Nat) : List (List Nat) :=
  if N ≤ sub.length then [sub]
  else match ext with
    | [] => []
    | w :: rest =>
      extend (sub ++ [w]) (rest ++ newExcl g v sub rest nsub w) (nsub ++ g w) ++ extend sub rest nsub
termination_by (N - sub.length, ext.length)
decreasing_by
  · apply Prod.Lex.left; simp; omega
  · apply Prod.Lex.right; simp
end esu

/-- the node sets (as lists, unsorted) handed to `count_motif` by the ESU pass, root by root -/
def esuSets (n : Nat) (E : HG) : List (List Nat) :=
  (roots E).flatMap fun v => extend n (nbrs E) v [v] ((nbrs E v).filter (v < ·)) (nbrs E v)
/-- `count_motif` of the ESU pass: sort, skip when visited by an earlier pass -/
def stdSets (n : Nat) (E : HG) (vis : List (List Nat)) : List (List Nat) :=
  ((esuSets n E).map isort).filter (!vis.contains ·)
def stdPats (n : Nat) (E : HG) (vis : List (List Nat)) : List Nat := (stdSets n E vis).map (pattern n (dyadic E))

/-! ## `compute_motifs(h, n, 0)['observed']` -/

def zipMax : List (Nat × Nat) → List (Nat × Nat) → List (Nat × Nat)
  | (c, a) :: xs, (_, b) :: ys => (c, max a b) :: zipMax xs ys
  | _, _ => []

/-- hyperedges returned by `get_edges(size=n, up_to=True)` -/
def upTo (n : Nat) (E : HG) : HG := E.filter (·.length ≤ n)

def censusWith (tb : List (List Nat)) (cls lab : List Nat) (n : Nat) (E0 : HG) : List (Nat × Nat) :=
  let E := upTo n E0
  let vis1 := fullSets n E
  let full := tallyWith tb cls lab (fullPats n E)
  if n == 4 then
    let nf := notFullSets n E vis1
    let vis2 := nf ++ vis1
    zipMax (zipMax full (tallyWith tb cls lab (notFullPats n E vis1))) (tallyWith tb cls lab (stdPats n E vis2))
  else
    zipMax full (tallyWith tb cls lab (stdPats n E vis1))

/-- (class representative, count) in class order -/
def census (n : Nat) (E0 : HG) : List (Nat × Nat) := censusWith (tbls n) (classes n) (labeling n) n E0

/-- the node set of a hypergraph, sorted (used by the specification: "every `n`-node subset") -/
def nodesOf (E : HG) : List Nat := isort (dedup (E.flatMap id))

/-- the hypergraph with every node `x` renamed to `π x` (hyperedges are stored sorted) -/
def relabelHG (π : Nat → Nat) (E : HG) : HG := E.map fun e => isort (e.map π)

/-! ## directed census -/

/-- a directed hyperedge (sorted source, sorted target) -/
abbrev DEdge := List Nat × List Nat
abbrev DHG := List DEdge

def dsize (e : DEdge) : Nat := e.1.length + e.2.length
def dnodes (e : DEdge) : List Nat := isort (dedup (e.1 ++ e.2))

def lexLt : List Nat → List Nat → Bool
  | [], [] => false
  | [], _ :: _ => true
  | _ :: _, [] => false
  | a :: as, b :: bs => if a < b then true else if b < a then false else lexLt as bs
/-- Python order on `(tuple, tuple)` -/
def dedgeLe (a b : DEdge) : Bool := lexLt a.1 b.1 || (a.1 == b.1 && !lexLt b.2 a.2)
def insertD (a : DEdge) : List DEdge → List DEdge
  | [] => [a]
  | b :: bs => if dedgeLe a b then a :: b :: bs else b :: insertD a bs
def sortD (l : List DEdge) : List DEdge := l.foldr insertD []
/-- Python order on tuples of directed hyperedges -/
def dpatLe : List DEdge → List DEdge → Bool
  | [], _ => true
  | _ :: _, [] => false
  | a :: as, b :: bs => if a == b then dpatLe as bs else dedgeLe a b

/-- all ordered pairs of disjoint non-empty sub-lists of `S` (`_all_directed_hyperedges`, a set) -/
def allDirected (S : List Nat) : List DEdge :=
  dedup ((List.range S.length).flatMap fun a => (subsetsOfSize a S).flatMap fun src =>
    if a == 0 then [] else
    let rest := S.filter (!src.contains ·)
    (List.range (rest.length + 1)).flatMap fun b =>
      if b == 0 then [] else (subsetsOfSize b rest).map fun tgt => (src, tgt))

/-- `labeled_motif`: the hyperedges of `T` inside the sorted node list `S`, nodes replaced by rank `1..n` -/
def dpattern (T : DHG) (S : List Nat) : List DEdge :=
  sortD (((allDirected S).filter T.contains).map fun e =>
    (isort (e.1.map fun x => S.idxOf x + 1), isort (e.2.map fun x => S.idxOf x + 1)))

/-- relabel ranks `1..n` by the permutation `p` of `0..n-1` -/
def drelabel (p : List Nat) (pat : List DEdge) : List DEdge :=
  sortD (pat.map fun e => (isort (e.1.map fun j => p[j-1]! + 1), isort (e.2.map fun j => p[j-1]! + 1)))

def minPat : List DEdge → List (List DEdge) → List DEdge
  | best, [] => best
  | best, x :: xs => minPat (if dpatLe best x then best else x) xs
/-- `sorted(l_perm)[0]` -/
def dcanon (n : Nat) (pat : List DEdge) : List DEdge :=
  match (perms (List.range n)).map (drelabel · pat) with
  | [] => pat
  | x :: xs => minPat x xs

/-- `mapping[rappr] += 1` over the counted subsets; result sorted by key as `out = sorted(out)` -/
def bump (k : List DEdge) : List (List DEdge × Nat) → List (List DEdge × Nat)
  | [] => [(k, 1)]
  | (k', c) :: rest => if k' == k then (k', c + 1) :: rest else (k', c) :: bump k rest
def dtally (keys : List (List DEdge)) : List (List DEdge × Nat) := keys.foldl (fun acc k => bump k acc) []

/-- node sets of `_directed_motifs_ho_full`: one per hyperedge spanning `n` nodes, first visit only -/
def dFullSets (n : Nat) (E : DHG) : List (List Nat) :=
  visitNew n [] (E.map dnodes)

def dIncident (E : DHG) (x : Nat) : DHG := E.filter fun e => e.1.contains x || e.2.contains x
/-- candidates of `_directed_motifs_ho_not_full`: a hyperedge on `n-1` distinct nodes, a node of it,
a hyperedge of `graph[x]` whose sides are disjoint -/
def dNfCands (n : Nat) (E : DHG) : List (List Nat) :=
  (E.filter fun e => (dnodes e).length + 1 == n && dsize e + 1 == n).flatMap fun e =>
    (dedup (e.1 ++ e.2)).flatMap fun x =>
      ((dIncident E x).filter fun f => (dnodes f).length == dsize f).map fun f =>
        isort (dedup (e.1 ++ e.2 ++ f.1 ++ f.2))
def dNotFullSets (n : Nat) (E : DHG) (vis : List (List Nat)) : List (List Nat) := visitNew n vis (dNfCands n E)

def dUpTo (n : Nat) (E : DHG) : DHG := E.filter (dsize · ≤ n)

/-- the directed hypergraph with every node `x` renamed to `π x` (sides are stored sorted) -/
def relabelDEdge (π : Nat → Nat) (e : DEdge) : DEdge := (isort (e.1.map π), isort (e.2.map π))
def relabelDHG (π : Nat → Nat) (E : DHG) : DHG := E.map (relabelDEdge π)

/-- the node sets classified by `compute_directed_motifs` (keys of the final `visited` dict, in visiting order):
full pass, then (order 4) the not-full pass -/
def dCounted (n : Nat) (F : DHG) : List (List Nat) :=
  dFullSets n F ++ (if n == 4 then dNotFullSets n F (dFullSets n F) else [])

/-- `compute_directed_motifs(h, n, 0)['observed']` as (canonical pattern, count), in first-seen order -/
def dirCensus (n : Nat) (E0 : DHG) : List (List DEdge × Nat) :=
  let E := dUpTo n E0
  let s1 := dFullSets n E
  let full := dtally (s1.map fun S => dcanon n (dpattern E S))
  if n == 4 then
    let s2 := dNotFullSets n E s1
    let nf := dtally (s2.map fun S => dcanon n (dpattern E S))
    -- `mappa[key] = count` first for full, then for not_full (overwrite)
    let over := full.filter fun p => !(nf.any fun q => q.1 == p.1)
    over ++ nf
  else full

end C11
