import Hgxv.Model.AList
/-! # C03 - executable model of `hypergraphx/core/temporal_hypergraph.py` (core Lean only)

Post-repair behaviour (fix commits c31bf93, 5244afd, 57755ab, 935916e, 32522c5 on branch `wC03`).

## API (for later properties: C06, C07, C09, C19, C20 may import this file)

* `Store`      the object: insertion-ordered association lists mirroring `_edge_list : (time, nodes) → id`,
               `_reverse_edge_list`, `_weights`, `_edge_metadata`, `_adj : node → [ids]`, `_node_metadata`,
               `_next_edge_id`, `_weighted`, `_hypergraph_metadata`.  `Store.new w` = `TemporalHypergraph(weighted=w)`.
* labels are `Nat` ranks, a key is `(time, sorted node list)`, weights are `Int` quanta of 1/4 (`one = 4`),
  metadata are token association lists `Meta`; `TimeArg` is a time as the caller sends it (`int i` | `bad`).
* mutators (one function per Python method, `Store → … → Store × Out`): `addNode addNodes addEdge addEdges removeEdge
  removeEdges removeNode removeNodes setWeight setNodeMeta setEdgeMeta setHMeta attrH attrNode attrEdge delAttrNode
  delAttrEdge clear`; `applyOp : Store → SOp → Store × Out` dispatches.
* `records s : List (Key × (Int × Meta))` = the content as the map the property speaks of (creation order);
  `edgeKeys s`, `weightOfKey s k`, `metaOfKey s k`.
* `View` = everything a getter reads (`view s`); every query is a function of the view: `V.getEdges V.numEdges
  V.getWeights V.incident V.neighbors V.degree V.degreeSeq V.degreeDist V.isolated V.isIsolated V.sizes V.uniform
  V.timesFor V.minTime V.maxTime V.snapshots V.aggregate`, and `V.answer : View → Query → Ans` (one `Query` constructor
  per public getter).  Store-level shorthands: `window getEdges numEdges getWeights incident neighbors degree timesFor
  minTime maxTime snapshots aggregate answer`.
* `HSpec` = spec-level `Hypergraph` (what `aggregate` / `subhypergraph` return), with `HSpec.addEdge`/`HSpec.addNode`
  mirroring `Hypergraph.add_edge`/`add_node`; `snapshotsOf` / `aggregateOf` are the loops of the two methods as
  functions of the record listing and the weight / metadata lookups.
* `State` = slots of stores, `Op` = `new | on slot sop | copy i j | query slot q`, `step : State → Op → State × Res`, `run`.
* `Model/C03Spec.lean`: the abstract map `Spec`, `abs : Store → Spec`, `Spec.applyOp`, `Spec.view`, `Spec.answer`;
  proved facts in `Proofs/C03*.lean`: `Inv` (invariant), `reachable_inv`, `applyOp_abs` (refinement), `view_abs`.
-/
namespace C03

abbrev Node := Nat
abbrev Meta := List (Nat × Nat)
abbrev Edge := List Nat
/-- `(time, canonical node tuple)` -/
abbrev Key := Nat × Edge

inductive Out | ok | rej
  deriving DecidableEq, Repr

/-- weight 1 in quanta of 1/4 -/
def one : Int := 4

/-- a time argument as sent by the caller: an integer or something that is not an integer (1.5, "3") -/
inductive TimeArg
  | int (i : Int)
  | bad
  deriving DecidableEq, Repr

/-- `isinstance(time, int)` and `time >= 0` -/
def validTime : TimeArg → Option Nat
  | .int i => if 0 ≤ i then some i.toNat else none
  | .bad => none

def insertSorted (a : Nat) : List Nat → List Nat
  | [] => [a]
  | b :: bs => if a ≤ b then a :: b :: bs else b :: insertSorted a bs
/-- `tuple(sorted(edge))` -/
def canon (l : List Nat) : Edge := l.foldr insertSorted []

/-- the dictionary key `(time, _canon_edge(edge))`; a time that is not a non-negative integer equals no stored time -/
def mkKey (raw : List Nat) (t : TimeArg) : Option Key := (validTime t).map (fun n => (n, canon raw))

structure Store where
  weighted : Bool
  edgeList : List (Key × Nat) := []
  rev : List (Nat × Key) := []
  weights : List (Nat × Int) := []
  emeta : List (Nat × Meta) := []
  adj : List (Node × List Nat) := []
  nmeta : List (Node × Meta) := []
  nextId : Nat := 0
  hmeta : Meta := []
  deriving DecidableEq

/-- reserved metadata tokens: key 100 = "weighted", 101 = "type"; values 90 = False, 91 = True, 92 = "TemporalHypergraph" -/
def Store.new (w : Bool) : Store := { weighted := w, hmeta := [(100, if w then 91 else 90), (101, 92)] }

/-! ## nodes -/

/-- `if node not in self._node_metadata: self._adj[node] = []; self._node_metadata[node] = {}` -/
def touchNode (s : Store) (n : Node) : Store :=
  if (AL.get? s.nmeta n).isSome then s
  else { s with adj := AL.set s.adj n [], nmeta := AL.set s.nmeta n [] }

/-- `if self._node_metadata[node] == {}: self._node_metadata[node] = metadata` -/
def fillMeta (s : Store) (n : Node) (md : Meta) : Store :=
  if AL.get? s.nmeta n = some [] then { s with nmeta := AL.set s.nmeta n md } else s

/-- `add_node(node, metadata)` -/
def addNode (s : Store) (n : Node) (md : Option Meta) : Store := fillMeta (touchNode s n) n (md.getD [])

/-- `add_nodes`: the metadata dict must cover the list (checked first), then `add_node` one by one -/
def addNodes (s : Store) (ns : List Node) (mds : Option (List (Node × Meta))) : Store × Out :=
  match mds with
  | none => (ns.foldl (fun s n => addNode s n none) s, .ok)
  | some d =>
    if ns.all (fun n => (AL.get? d n).isSome) then (ns.foldl (fun s n => addNode s n (AL.get? d n)) s, .ok)
    else (s, .rej)

/-! ## add_edge -/

def touchNodes (s : Store) (ns : List Node) : Store := ns.foldl touchNode s

/-- `self._adj[node].append(e_id)` -/
def appendId (adj : List (Node × List Nat)) (id : Nat) (n : Node) : List (Node × List Nat) :=
  match AL.get? adj n with
  | some ids => AL.set adj n (ids ++ [id])
  | none => adj

def linkNodes (adj : List (Node × List Nat)) (id : Nat) (ns : List Node) : List (Node × List Nat) :=
  ns.foldl (fun a n => appendId a id n) adj

/-- branch `edge not in self._edge_list` -/
def addEdgeNew (s : Store) (k : Key) (wt : Int) (md : Meta) : Store :=
  let id := s.nextId
  let s1 := touchNodes { s with rev := AL.set s.rev id k, edgeList := AL.set s.edgeList k id, nextId := id + 1,
                                weights := AL.set s.weights id wt, emeta := AL.set s.emeta id md } k.2
  { s1 with adj := linkNodes s1.adj id k.2 }

/-- branch `edge in self._edge_list`: weights add when weighted, metadata replaced, adjacency untouched -/
def addEdgeOld (s : Store) (id : Nat) (k : Key) (wt : Int) (md : Meta) : Store :=
  touchNodes { s with weights := if s.weighted then AL.set s.weights id (((AL.get? s.weights id).getD 0) + wt) else s.weights,
                      emeta := AL.set s.emeta id md } k.2

def addEdgeKey (s : Store) (k : Key) (wt : Int) (md : Meta) : Store :=
  match AL.get? s.edgeList k with
  | none => addEdgeNew s k wt md
  | some id => addEdgeOld s id k wt md

/-- `add_edge(edge, time, weight, metadata)` -/
def addEdge (s : Store) (raw : List Nat) (t : TimeArg) (w : Option Int) (md : Option Meta) : Store × Out :=
  match t with
  | .bad => (s, .rej)                                            -- not isinstance(time, int)
  | .int i =>
    if !s.weighted && w.isSome && w != some one then (s, .rej)   -- unweighted and weight not in {None, 1}
    else if i < 0 then (s, .rej)
    else (addEdgeKey s (i.toNat, canon raw) (w.getD one) (md.getD []), .ok)

/-- zip with defaults: the `i`-th weight / metadata of a batch -/
def nth? {α} (l : Option (List α)) (i : Nat) : Option α := l.bind (fun l => l[i]?)

def addEdgesLoop (s : Store) (ws : Option (List Int)) (mds : Option (List Meta)) :
    Nat → List (List Nat × TimeArg) → Store
  | _, [] => s
  | i, (raw, t) :: rest => addEdgesLoop (addEdge s raw t (nth? ws i) (nth? mds i)).1 ws mds (i + 1) rest

/-- `len(set(edge_list)) != len(edge_list)` on the raw tuples -/
def hasDup : List (List Nat) → Bool
  | [] => false
  | a :: t => t.contains a || hasDup t

/-- with `weights`: no repeated tuple in `edge_list`, as many weights as edges -/
def wsOk (raws : List (List Nat)) : Option (List Int) → Bool
  | some l => !hasDup raws && l.length == raws.length
  | none => true

def mdsOk (raws : List (List Nat)) : Option (List Meta) → Bool
  | some l => l.length == raws.length
  | none => true

/-- the validation `add_edges` performs before the first mutation -/
def addEdgesOk (raws : List (List Nat)) (ts : List TimeArg) (ws : Option (List Int)) (mds : Option (List Meta)) : Bool :=
  raws.length == ts.length && wsOk raws ws && mdsOk raws mds && ts.all (fun t => (validTime t).isSome)

/-- `add_edges(edge_list, time_list, weights, metadata)` - the whole batch is validated first; giving weights makes
the hypergraph weighted -/
def addEdges (s : Store) (raws : List (List Nat)) (ts : List TimeArg) (ws : Option (List Int))
    (mds : Option (List Meta)) : Store × Out :=
  if addEdgesOk raws ts ws mds then
    (addEdgesLoop (if ws.isSome then { s with weighted := true } else s) ws mds 0 (raws.zip ts), .ok)
  else (s, .rej)

/-! ## remove_edge -/

/-- `for node in nodes: if edge_id in self._adj[node]: self._adj[node].remove(edge_id)` -/
def unlinkNodes (adj : List (Node × List Nat)) (id : Nat) : List Node → List (Node × List Nat)
  | [] => adj
  | n :: ns =>
    let adj := match AL.get? adj n with
      | some ids => AL.set adj n (ids.erase id)
      | none => adj
    unlinkNodes adj id ns

def removeKeyId (s : Store) (k : Key) (id : Nat) : Store :=
  { s with rev := AL.erase s.rev id, weights := AL.erase s.weights id, emeta := AL.erase s.emeta id,
           adj := unlinkNodes s.adj id k.2, edgeList := AL.erase s.edgeList k }

def removeKey (s : Store) (k : Key) : Store × Out :=
  match AL.get? s.edgeList k with
  | none => (s, .rej)
  | some id => (removeKeyId s k id, .ok)

/-- `remove_edge(edge, time)` / `remove_edge((time, edge))` -/
def removeEdge (s : Store) (raw : List Nat) (t : TimeArg) : Store × Out :=
  match mkKey raw t with
  | none => (s, .rej)
  | some k => removeKey s k

def keysDistinct : List Key → Bool
  | [] => true
  | a :: t => !t.contains a && keysDistinct t

/-- `remove_edges([(time, edge), …])`: every record present and not repeated (checked first) -/
def removeEdges (s : Store) (recs : List (TimeArg × List Nat)) : Store × Out :=
  match recs.mapM (fun r => mkKey r.2 r.1) with
  | none => (s, .rej)
  | some ks =>
    if ks.all (fun k => (AL.get? s.edgeList k).isSome) && keysDistinct ks then
      (ks.foldl (fun s k => (removeKey s k).1) s, .ok)
    else (s, .rej)

/-! ## remove_node -/

/-- one iteration of the loop of `remove_node` over `edges_to_process` -/
def dropIncident (s : Store) (n : Node) (keep : Bool) (id : Nat) : Store :=
  match AL.get? s.rev id with
  | none => s
  | some k =>
    let w := (AL.get? s.weights id).getD one
    let md := (AL.get? s.emeta id).getD []
    let s1 := (removeKey s k).1
    let upd := k.2.filter (· != n)
    if keep && !upd.isEmpty then (addEdge s1 upd (.int k.1) (some w) (some md)).1 else s1

def removeNode (s : Store) (n : Node) (keep : Bool) : Store × Out :=
  match AL.get? s.adj n with
  | none => (s, .rej)
  | some ids =>
    let s1 := ids.foldl (fun s id => dropIncident s n keep id) s
    ({ s1 with adj := AL.erase s1.adj n, nmeta := AL.erase s1.nmeta n }, .ok)

def nodesDistinct : List Node → Bool
  | [] => true
  | a :: t => !t.contains a && nodesDistinct t

/-- `remove_nodes`: all present, no repetition (checked first) -/
def removeNodes (s : Store) (ns : List Node) (keep : Bool) : Store × Out :=
  if ns.all (fun n => (AL.get? s.adj n).isSome) && nodesDistinct ns then
    (ns.foldl (fun s n => (removeNode s n keep).1) s, .ok)
  else (s, .rej)

/-! ## weights and metadata -/

def idOf (s : Store) (raw : List Nat) (t : TimeArg) : Option Nat :=
  (mkKey raw t).bind (AL.get? s.edgeList)

def setWeight (s : Store) (raw : List Nat) (t : TimeArg) (w : Int) : Store × Out :=
  if !s.weighted && w != one then (s, .rej) else
  match idOf s raw t with
  | none => (s, .rej)
  | some id => ({ s with weights := AL.set s.weights id w }, .ok)

def setNodeMeta (s : Store) (n : Node) (md : Meta) : Store × Out :=
  if (AL.get? s.nmeta n).isSome then ({ s with nmeta := AL.set s.nmeta n md }, .ok) else (s, .rej)

def setEdgeMeta (s : Store) (raw : List Nat) (t : TimeArg) (md : Meta) : Store × Out :=
  match idOf s raw t with
  | none => (s, .rej)
  | some id => ({ s with emeta := AL.set s.emeta id md }, .ok)

def setHMeta (s : Store) (md : Meta) : Store × Out := ({ s with hmeta := md }, .ok)

def attrH (s : Store) (k v : Nat) : Store × Out := ({ s with hmeta := AL.set s.hmeta k v }, .ok)

def attrNode (s : Store) (n : Node) (k v : Nat) : Store × Out :=
  match AL.get? s.nmeta n with
  | none => (s, .rej)
  | some md => ({ s with nmeta := AL.set s.nmeta n (AL.set md k v) }, .ok)

def attrEdge (s : Store) (raw : List Nat) (t : TimeArg) (k v : Nat) : Store × Out :=
  match idOf s raw t with
  | none => (s, .rej)
  | some id => ({ s with emeta := AL.set s.emeta id (AL.set ((AL.get? s.emeta id).getD []) k v) }, .ok)

/-- `del self._node_metadata[node][field]` (KeyError when the field is absent) -/
def delAttrNode (s : Store) (n : Node) (k : Nat) : Store × Out :=
  match AL.get? s.nmeta n with
  | none => (s, .rej)
  | some md => if (AL.get? md k).isSome then ({ s with nmeta := AL.set s.nmeta n (AL.erase md k) }, .ok) else (s, .rej)

def delAttrEdge (s : Store) (raw : List Nat) (t : TimeArg) (k : Nat) : Store × Out :=
  match idOf s raw t with
  | none => (s, .rej)
  | some id =>
    let md := (AL.get? s.emeta id).getD []
    if (AL.get? md k).isSome then ({ s with emeta := AL.set s.emeta id (AL.erase md k) }, .ok) else (s, .rej)

/-- `clear()`: all tables and the hypergraph metadata; `_next_edge_id` and `_weighted` stay -/
def clear (s : Store) : Store := { weighted := s.weighted, nextId := s.nextId }

/-! ## operations -/

inductive SOp
  | addNode (n : Node) (md : Option Meta)
  | addNodes (ns : List Node) (mds : Option (List (Node × Meta)))
  | addEdge (raw : List Nat) (t : TimeArg) (w : Option Int) (md : Option Meta)
  | addEdges (raws : List (List Nat)) (ts : List TimeArg) (ws : Option (List Int)) (mds : Option (List Meta))
  | removeEdge (raw : List Nat) (t : TimeArg)
  | removeEdges (recs : List (TimeArg × List Nat))
  | removeNode (n : Node) (keep : Bool)
  | removeNodes (ns : List Node) (keep : Bool)
  | setWeight (raw : List Nat) (t : TimeArg) (w : Int)
  | setNodeMeta (n : Node) (md : Meta)
  | setEdgeMeta (raw : List Nat) (t : TimeArg) (md : Meta)
  | setHMeta (md : Meta)
  | attrH (k v : Nat)
  | attrNode (n : Node) (k v : Nat)
  | attrEdge (raw : List Nat) (t : TimeArg) (k v : Nat)
  | delAttrNode (n : Node) (k : Nat)
  | delAttrEdge (raw : List Nat) (t : TimeArg) (k : Nat)
  | clear

def applyOp (s : Store) : SOp → Store × Out
  | .addNode n md => (addNode s n md, .ok)
  | .addNodes ns mds => addNodes s ns mds
  | .addEdge raw t w md => addEdge s raw t w md
  | .addEdges raws ts ws mds => addEdges s raws ts ws mds
  | .removeEdge raw t => removeEdge s raw t
  | .removeEdges recs => removeEdges s recs
  | .removeNode n keep => removeNode s n keep
  | .removeNodes ns keep => removeNodes s ns keep
  | .setWeight raw t w => setWeight s raw t w
  | .setNodeMeta n md => setNodeMeta s n md
  | .setEdgeMeta raw t md => setEdgeMeta s raw t md
  | .setHMeta md => setHMeta s md
  | .attrH k v => attrH s k v
  | .attrNode n k v => attrNode s n k v
  | .attrEdge raw t k v => attrEdge s raw t k v
  | .delAttrNode n k => delAttrNode s n k
  | .delAttrEdge raw t k => delAttrEdge s raw t k
  | .clear => (clear s, .ok)

/-! ## the content as a map; filters, sorting, windows -/

/-- `(time, nodes) ↦ (weight, metadata)` in creation order -/
def records (s : Store) : List (Key × (Int × Meta)) :=
  s.edgeList.map (fun p => (p.1, ((AL.get? s.weights p.2).getD one, (AL.get? s.emeta p.2).getD [])))

def edgeKeys (s : Store) : List Key := AL.keys s.edgeList

def metaOfKey (s : Store) (k : Key) : Option Meta := (AL.get? s.edgeList k).bind (AL.get? s.emeta)
def weightOfKey (s : Store) (k : Key) : Option Int := (AL.get? s.edgeList k).bind (AL.get? s.weights)

/-- order / size / up_to arguments of the getters -/
structure Filt where
  order : Option Int := none
  size : Option Int := none
  upTo : Bool := false

/-- `if size is not None: order = size - 1` -/
def effOrder (order size : Option Int) : Option Int :=
  match size with
  | some k => some (k - 1)
  | none => order

/-- `len(edge[1]) - 1 == order` / `<= order` -/
def passes (ord : Int) (upTo : Bool) (k : Key) : Bool :=
  if upTo then ((k.2.length : Int) - 1 ≤ ord) else ((k.2.length : Int) - 1 == ord)

def applyFilt (f : Filt) (ks : List Key) : List Key :=
  match effOrder f.order f.size with
  | none => ks
  | some o => ks.filter (passes o f.upTo)

/-- lexicographic order on node tuples (Python tuple comparison) -/
def lexLe : List Nat → List Nat → Bool
  | [], _ => true
  | _ :: _, [] => false
  | a :: as, b :: bs => if a < b then true else if b < a then false else lexLe as bs

/-- `(t, e) <= (t', e')` as Python compares tuples -/
def keyLe (a b : Key) : Bool := if a.1 < b.1 then true else if b.1 < a.1 then false else lexLe a.2 b.2

def insertKey (a : Key) : List Key → List Key
  | [] => [a]
  | b :: bs => if keyLe a b then a :: b :: bs else b :: insertKey a bs
/-- `sorted(self._edge_list.keys())` -/
def sortKeys (l : List Key) : List Key := l.foldr insertKey []

inductive Win
  | none
  | pair (a b : Int)
  | bad
  deriving Repr

/-- `time_window[0] <= _t < time_window[1]` -/
def inWin (a b : Int) (k : Key) : Bool := a ≤ (k.1 : Int) && (k.1 : Int) < b

def dedup (l : List Nat) : List Nat := l.foldl (fun acc x => if acc.contains x then acc else acc ++ [x]) []

/-- counting dictionary `d[x] += 1` -/
def countInto (acc : List (Int × Nat)) (x : Int) : List (Int × Nat) :=
  AL.set acc x (((AL.get? acc x).getD 0) + 1)

def maxNat : List Nat → Option Nat
  | [] => none
  | a :: t => some (t.foldl max a)

/-! ## spec-level `Hypergraph` objects returned by `subhypergraph` / `aggregate` -/

structure HSpec where
  weighted : Bool
  nodes : List (Node × Meta) := []
  edges : List (Edge × (Int × Meta)) := []
  deriving DecidableEq

/-- `Hypergraph.add_node(node, metadata)` -/
def HSpec.addNode (h : HSpec) (n : Node) (md : Meta) : HSpec :=
  let h1 := if (AL.get? h.nodes n).isSome then h else { h with nodes := AL.set h.nodes n [] }
  if AL.get? h1.nodes n = some [] then { h1 with nodes := AL.set h1.nodes n md } else h1

def HSpec.touchNodes (h : HSpec) (ns : List Node) : HSpec := ns.foldl (fun h n => h.addNode n []) h

/-- `Hypergraph.add_edge(edge, weight, metadata)`; `none` = the call raises (unweighted and weight ∉ {None, 1}) -/
def HSpec.addEdge (h : HSpec) (e : Edge) (w : Int) (md : Meta) : Option HSpec :=
  if !h.weighted && w != one then none else
  let e := canon e
  match AL.get? h.edges e with
  | none => some (HSpec.touchNodes { h with edges := AL.set h.edges e (if h.weighted then w else one, md) } e)
  | some (w0, _) => some { h with edges := AL.set h.edges e (if h.weighted then w0 + w else w0, md) }

/-- `time_window[0] <= t < time_window[1]` with `±inf` as `none` -/
def insideOpt (a b : Option Int) (t : Nat) : Bool :=
  (match a with | none => true | some a => a ≤ (t : Int)) && (match b with | none => true | some b => (t : Int) < b)

/-- the loop of `subhypergraph` over `get_edges()`; `wOf` = `get_weight` of a record -/
def snapStep (weighted : Bool) (wOf : Key → Option Int) (a b : Option Int) (res : List (Nat × HSpec)) (k : Key) :
    Option (List (Nat × HSpec)) :=
  if insideOpt a b k.1 then
    let h := (AL.get? res k.1).getD { weighted := weighted }
    match wOf k with
    | none => none
    | some w => (h.addEdge k.2 w []).map (fun h' => AL.set res k.1 h')
  else some res

def snapLoop (weighted : Bool) (wOf : Key → Option Int) (a b : Option Int) :
    List (Nat × HSpec) → List Key → Option (List (Nat × HSpec))
  | res, [] => some res
  | res, k :: ks => (snapStep weighted wOf a b res k).bind (fun r => snapLoop weighted wOf a b r ks)

/-- `subhypergraph(time_window)` as a function of the record listing and the weight lookup; `none` = raises -/
def snapshotsOf (weighted : Bool) (wOf : Key → Option Int) (keys : List Key) (w : Win) : Option (List (Nat × HSpec)) :=
  match w with
  | .bad => none
  | .none => snapLoop weighted wOf none none [] keys
  | .pair a b => snapLoop weighted wOf (some a) (some b) [] keys

/-- the inner `while` of `aggregate`: consume records while `t_start <= t < t_end` -/
def takeWindow (tS tE : Nat) : List Key → List Key × List Key
  | [] => ([], [])
  | k :: rest =>
    if tS ≤ k.1 ∧ k.1 < tE then ((k :: (takeWindow tS tE rest).1), (takeWindow tS tE rest).2)
    else ([], k :: rest)

/-- `Hypergraph_t.add_edge(nodes, metadata=get_edge_metadata(..), weight=get_weight(..))` for the records of a window -/
def addWindowEdges (wOf : Key → Option Int) (mOf : Key → Option Meta) : HSpec → List Key → Option HSpec
  | h, [] => some h
  | h, k :: ks =>
    match mOf k, wOf k with
    | some md, some w => (h.addEdge k.2 w md).bind (fun h' => addWindowEdges wOf mOf h' ks)
    | _, _ => none

/-- the hypergraph of one window: edges in sorted order, then every node with its metadata -/
def buildWindow (weighted : Bool) (wOf : Key → Option Int) (mOf : Key → Option Meta) (nmeta : List (Node × Meta))
    (ks : List Key) : Option HSpec :=
  (addWindowEdges wOf mOf { weighted := weighted } ks).map
    (fun h => nmeta.foldl (fun h p => h.addNode p.1 p.2) h)

/-- the outer `while t_start <= max_time` of `aggregate` -/
def aggLoop (weighted : Bool) (wOf : Key → Option Int) (mOf : Key → Option Meta) (nmeta : List (Node × Meta))
    (w : Nat) (hw : 0 < w) (maxT : Nat) (tS idx : Nat) (rest : List Key) : Option (List (Nat × HSpec)) :=
  if h : tS ≤ maxT then
    match buildWindow weighted wOf mOf nmeta (takeWindow tS (tS + w) rest).1 with
    | none => none
    | some hg => (aggLoop weighted wOf mOf nmeta w hw maxT (tS + w) (idx + 1) (takeWindow tS (tS + w) rest).2).map
        (fun tl => (idx, hg) :: tl)
  else some []
termination_by maxT + 1 - tS
decreasing_by omega

/-- `aggregate(time_window)` as a function of the record listing and the lookups; `none` = raises -/
def aggregateOf (weighted : Bool) (wOf : Key → Option Int) (mOf : Key → Option Meta) (nmeta : List (Node × Meta))
    (keys : List Key) (w : TimeArg) : Option (List (Nat × HSpec)) :=
  match w with
  | .bad => none
  | .int i =>
    if _h : 0 < i then
      let sorted := sortKeys keys
      match maxNat (sorted.map (·.1)) with
      | none => some []
      | some maxT => aggLoop weighted wOf mOf nmeta i.toNat (by omega) maxT 0 0 sorted
    else none

/-! ## views: everything a query reads

A `View` is what the getters of `TemporalHypergraph` read from the object.  Every query is a function of the view
(`V.*` below); `view s` reads it off a concrete store, `Spec.view` (Model/C03Spec.lean) off the abstract map.
The refinement theorem says that both views agree on every field except the two that expose edge ids. -/

structure View where
  weighted : Bool
  /-- `_node_metadata` -/
  nodes : List (Node × Meta)
  /-- keys of `_edge_list` in dict order -/
  keys : List Key
  /-- `get_weight` / `get_edge_metadata` of a record (`none`: not a record) -/
  wOf : Key → Option Int
  mOf : Key → Option Meta
  /-- `key in self._edge_list` -/
  has : Key → Bool
  /-- `[self._reverse_edge_list[id] for id in self._adj[node]]`; `none`: node not in `_adj` -/
  inc : Node → Option (List Key)
  hmeta : Meta
  /-- `get_all_edges_metadata()` - keyed by edge id -/
  idMeta : List (Nat × Meta)
  /-- `__iter__` - `(key, id)` items -/
  items : List (Key × Nat)

def view (s : Store) : View :=
  { weighted := s.weighted, nodes := s.nmeta, keys := edgeKeys s, wOf := weightOfKey s, mOf := metaOfKey s,
    has := fun k => (AL.get? s.edgeList k).isSome,
    inc := fun n => (AL.get? s.adj n).map (fun ids => ids.filterMap (AL.get? s.rev)),
    hmeta := s.hmeta, idMeta := s.emeta, items := s.edgeList }

namespace V

/-- `get_edges(time_window, order, size, up_to)`; `none` = the call raises -/
def getEdges (v : View) (w : Win) (f : Filt) : Option (List Key) :=
  if f.order.isSome && f.size.isSome then none else
  match w with
  | .bad => none
  | .none => some (applyFilt f v.keys)
  | .pair a b => some (applyFilt f ((sortKeys v.keys).filter (inWin a b)))

def numEdges (v : View) (f : Filt) : Option Nat :=
  if f.order.isSome && f.size.isSome then none else some (applyFilt f v.keys).length

/-- `get_weights(order, size, up_to, asdict=True)` -/
def getWeights (v : View) (f : Filt) : Option (List (Key × Int)) :=
  if f.order.isSome && f.size.isSome then none else
  (applyFilt f v.keys).mapM (fun k => (v.wOf k).map (fun w => (k, w)))

/-- `get_incident_edges(node, order, size)` -/
def incident (v : View) (n : Node) (order size : Option Int) : Option (List Key) :=
  match v.inc n with
  | none => none
  | some ks =>
    if order.isSome && size.isSome then none else
    match effOrder order size with
    | none => some ks
    | some o => some (ks.filter (passes o false))

/-- `get_neighbors(node, order, size)` (a set: order of the listing is free) -/
def neighbors (v : View) (n : Node) (order size : Option Int) : Option (List Node) :=
  (incident v n order size).map (fun ks => (dedup (ks.flatMap (·.2))).filter (· != n))

def degree (v : View) (n : Node) (order size : Option Int) : Option Nat :=
  (incident v n order size).map (·.length)

def nodeList (v : View) : List Node := AL.keys v.nodes

/-- `degree_sequence(order, size)` -/
def degreeSeq (v : View) (order size : Option Int) : Option (List (Node × Nat)) :=
  if order.isSome && size.isSome then none else
  (nodeList v).mapM (fun n => (degree v n (effOrder order size) none).map (fun d => (n, d)))

def degreeDist (v : View) (order size : Option Int) : Option (List (Int × Nat)) :=
  (degreeSeq v order size).map (fun l => l.foldl (fun acc p => countInto acc (p.2 : Int)) [])

def isolated (v : View) (order size : Option Int) : Option (List Node) :=
  if order.isSome && size.isSome then none else
  ((nodeList v).mapM (fun n => (neighbors v n order size).map (fun l => (n, l)))).map
    (fun l => (l.filter (fun p => p.2.isEmpty)).map (·.1))

def isIsolated (v : View) (n : Node) (order size : Option Int) : Option Bool :=
  if order.isSome && size.isSome then none else (neighbors v n order size).map (·.isEmpty)

def sizes (v : View) : List Nat := v.keys.map (·.2.length)

/-- `is_uniform` -/
def uniform (v : View) : Bool :=
  match sizes v with
  | [] => true
  | a :: t => t.all (· == a)

/-- `get_times_for_edge(edge)` -/
def timesFor (v : View) (raw : List Nat) : List Nat :=
  ((v.keys.filter (fun k => k.2 == canon raw)).map (·.1))

/-- `min_time()`: `none` = `math.inf` -/
def minTime (v : View) : Option Nat :=
  v.keys.foldl (fun m k => match m with | none => some k.1 | some x => if x > k.1 then some k.1 else some x) none

/-- `max_time()`: `none` = `-math.inf` -/
def maxTime (v : View) : Option Nat :=
  v.keys.foldl (fun m k => match m with | none => some k.1 | some x => if x < k.1 then some k.1 else some x) none

def snapshots (v : View) (w : Win) : Option (List (Nat × HSpec)) := snapshotsOf v.weighted v.wOf v.keys w

def aggregate (v : View) (w : TimeArg) : Option (List (Nat × HSpec)) :=
  aggregateOf v.weighted v.wOf v.mOf v.nodes v.keys w

end V

/-! ## the getters of the concrete store -/

/-- `get_edges(time_window)` before the size filter -/
def window (s : Store) (a b : Int) : List Key := (sortKeys (edgeKeys s)).filter (inWin a b)
def getEdges (s : Store) (w : Win) (f : Filt) : Option (List Key) := V.getEdges (view s) w f
def numEdges (s : Store) (f : Filt) : Option Nat := V.numEdges (view s) f
def getWeights (s : Store) (f : Filt) : Option (List (Key × Int)) := V.getWeights (view s) f
def incident (s : Store) (n : Node) (order size : Option Int) : Option (List Key) := V.incident (view s) n order size
def neighbors (s : Store) (n : Node) (order size : Option Int) : Option (List Node) := V.neighbors (view s) n order size
def degree (s : Store) (n : Node) (order size : Option Int) : Option Nat := V.degree (view s) n order size
def timesFor (s : Store) (raw : List Nat) : List Nat := V.timesFor (view s) raw
def minTime (s : Store) : Option Nat := V.minTime (view s)
def maxTime (s : Store) : Option Nat := V.maxTime (view s)
/-- `subhypergraph(time_window)`; `none` = raises (window not a tuple) -/
def snapshots (s : Store) (w : Win) : Option (List (Nat × HSpec)) := V.snapshots (view s) w
/-- `aggregate(time_window)`; `none` = raises -/
def aggregate (s : Store) (w : TimeArg) : Option (List (Nat × HSpec)) := V.aggregate (view s) w

/-! ## queries -/

inductive Query
  | nodes | nodesMeta | checkNode (n : Node) | numNodes
  | edges (w : Win) (f : Filt) (withMeta : Bool)
  | numEdges (f : Filt) | checkEdge (raw : List Nat) (t : TimeArg) | weight (raw : List Nat) (t : TimeArg)
  | weights (f : Filt) (asdict : Bool)
  | incident (n : Node) (o s : Option Int) | neighbors (n : Node) (o s : Option Int) | degree (n : Node) (o s : Option Int)
  | degSeq (o s : Option Int) | degDist (o s : Option Int)
  | sizes | orders | distSizes | maxSize | maxOrder | uniform | weighted
  | nodeMeta (n : Node) | edgeMeta (raw : List Nat) (t : TimeArg) | allEdgeMeta | hMeta
  | isolated (o s : Option Int) | isIsolated (n : Node) (o s : Option Int) | len | iter
  | timesFor (raw : List Nat) | minTime | maxTime
  | snap (w : Win) | agg (w : TimeArg)

inductive Ans
  | rej
  | bool (b : Bool)
  | int (i : Int)
  | inf (neg : Bool)
  | nodes (l : List Node)
  | ints (l : List Int)
  | recs (l : List Key)
  | recsMeta (l : List (Key × Meta))
  | recsW (l : List (Key × Int))
  | recsId (l : List (Key × Nat))
  | nodeMeta (l : List (Node × Meta))
  | dict (m : Meta)
  | idMeta (l : List (Nat × Meta))
  | counts (l : List (Int × Nat))
  | hs (l : List (Nat × HSpec))
  deriving DecidableEq

def optAns {α} (o : Option α) (f : α → Ans) : Ans := match o with | none => .rej | some a => f a

/-- the answer to a query, as a function of the view -/
def V.answer (v : View) : Query → Ans
  | .nodes => .nodes (V.nodeList v)
  | .nodesMeta => .nodeMeta v.nodes
  | .checkNode n => .bool (v.inc n).isSome
  | .numNodes => .int (V.nodeList v).length
  | .edges w f false => optAns (V.getEdges v w f) .recs
  | .edges w f true => optAns ((V.getEdges v w f).bind (fun ks => ks.mapM (fun k => (v.mOf k).map (fun m => (k, m))))) .recsMeta
  | .numEdges f => optAns (V.numEdges v f) (fun n => .int n)
  | .checkEdge raw t => .bool (match mkKey raw t with | none => false | some k => v.has k)
  | .weight raw t => optAns ((mkKey raw t).bind v.wOf) .int
  | .weights f true => optAns (V.getWeights v f) .recsW
  | .weights f false => optAns (V.getWeights v f) (fun l => .ints (l.map (·.2)))
  | .incident n o sz => optAns (V.incident v n o sz) .recs
  | .neighbors n o sz => optAns (V.neighbors v n o sz) .nodes
  | .degree n o sz => optAns (if o.isSome && sz.isSome then none else V.degree v n o sz) (fun d => .int d)
  | .degSeq o sz => optAns (V.degreeSeq v o sz) (fun l => .counts (l.map (fun p => ((p.1 : Int), p.2))))
  | .degDist o sz => optAns (V.degreeDist v o sz) .counts
  | .sizes => .ints ((V.sizes v).map (fun (n : Nat) => (n : Int)))
  | .orders => .ints ((V.sizes v).map (fun (n : Nat) => (n : Int) - 1))
  | .distSizes => .counts ((V.sizes v).foldl (fun acc (n : Nat) => countInto acc (n : Int)) [])
  | .maxSize => optAns (maxNat (V.sizes v)) (fun n => .int n)
  | .maxOrder => optAns (maxNat (V.sizes v)) (fun n => .int ((n : Int) - 1))
  | .uniform => .bool (V.uniform v)
  | .weighted => .bool v.weighted
  | .nodeMeta n => optAns (AL.get? v.nodes n) .dict
  | .edgeMeta raw t => optAns ((mkKey raw t).bind v.mOf) .dict
  | .allEdgeMeta => .idMeta v.idMeta
  | .hMeta => .dict v.hmeta
  | .isolated o sz => optAns (V.isolated v o sz) .nodes
  | .isIsolated n o sz => optAns (V.isIsolated v n o sz) .bool
  | .len => .int v.keys.length
  | .iter => .recsId v.items
  | .timesFor raw => .ints ((V.timesFor v raw).map (fun (n : Nat) => (n : Int)))
  | .minTime => match V.minTime v with | none => .inf false | some t => .int t
  | .maxTime => match V.maxTime v with | none => .inf true | some t => .int t
  | .snap w => optAns (V.snapshots v w) .hs
  | .agg w => optAns (V.aggregate v w) .hs

/-- the answer of the concrete store -/
def answer (s : Store) (q : Query) : Ans := V.answer (view s) q

/-! ## several objects (`copy`) -/

abbrev State := List (Nat × Store)

inductive Op
  | new (i : Nat) (w : Bool)
  | on (i : Nat) (o : SOp)
  | copy (i j : Nat)
  | query (i : Nat) (q : Query)

inductive Res
  | out (o : Out)
  | ans (a : Ans)
  deriving DecidableEq

def step (st : State) : Op → State × Res
  | .new i w => (AL.set st i (Store.new w), .out .ok)
  | .on i o =>
    match AL.get? st i with
    | none => (st, .out .rej)
    | some s => (AL.set st i (applyOp s o).1, .out (applyOp s o).2)
  | .copy i j =>
    match AL.get? st i with
    | none => (st, .out .rej)
    | some s => (AL.set st j s, .out .ok)
  | .query i q =>
    match AL.get? st i with
    | none => (st, .ans .rej)
    | some s => (st, .ans (answer s q))

def run (st : State) (ops : List Op) : State := ops.foldl (fun st op => (step st op).1) st

end C03
