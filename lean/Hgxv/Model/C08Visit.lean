import Hgxv.Model.C08
/-! # C08 model, extension: `utils/visits.py` in full - `_bfs` and `_dfs` with `max_depth` (core Lean only)

`_bfs` and `_dfs` are the same loop over a work list of `(node, depth)` pairs and a visited set; they differ in the end
of the work list that is popped (`deque.popleft()` vs `list.pop()`).  One model, `search`, with a flag:

* `within`  <-> `max_depth is None or depth < max_depth`
* `expand`  <-> `(n, depth + 1) for n in neighbors if n not in visited` (evaluated after `add_visited(node)`)
* `push`    <-> `queue.extend(..)` read by `popleft()` (FIFO) / `stack.extend(..)` read by `pop()` (LIFO)
* `search`  <-> the `while queue:` / `while stack:` loop (well-founded on (unvisited nodes, work-list length): no fuel)
* `visitFrom` <-> `_bfs(hg, start, max_depth, order|size)` / `_dfs(..)` with the `check_node` guard
* `nbrsTab` / `visitTab` <-> the same loops run on a recorded table of `get_neighbors` answers (iteration order of the
  Python sets as observed), used by the correspondence for the order-dependent depth-limited `_dfs`
-/
namespace C08

/-- `max_depth is None or depth < max_depth` (any Python int as bound, also 0 and negative ones) -/
def within : Option Int → Nat → Bool
  | none, _ => true
  | some m, d => decide ((d : Int) < m)

/-- `(n, depth + 1) for n in neighbors if n not in visited`, nothing when the depth bound is reached;
`visited` already contains the node that is being expanded -/
def expand (nbrs : Nat → List Nat) (md : Option Int) (x d : Nat) (visited : List Nat) : List (Nat × Nat) :=
  if within md d then ((nbrs x).filter (fun n => decide (n ∉ visited))).map (fun n => (n, d + 1)) else []

/-- the work list after `extend`: the head of the list is what the next `popleft()` (`_bfs`) / `pop()` (`_dfs`) returns -/
def push (dfs : Bool) (pending ext : List (Nat × Nat)) : List (Nat × Nat) :=
  if dfs then ext.reverse ++ pending else pending ++ ext

theorem push_nil (dfs : Bool) (pending : List (Nat × Nat)) : push dfs pending [] = pending := by
  cases dfs <;> simp [push]

theorem expand_of_nil (nbrs : Nat → List Nat) (md : Option Int) (x d : Nat) (visited : List Nat) (hx : nbrs x = []) :
    expand nbrs md x d visited = [] := by
  unfold expand; rw [hx]; split <;> rfl

/-- The loop of `_bfs` (`dfs = false`) and `_dfs` (`dfs = true`): pop; if the node is new, mark it and - unless the depth
bound is reached - put its not yet visited neighbours on the work list, one level deeper. -/
def search (univ : List Nat) (nbrs : Nat → List Nat) (h : ∀ x, x ∉ univ → nbrs x = []) (md : Option Int) (dfs : Bool) :
    (work : List (Nat × Nat)) → (visited : List Nat) → List Nat
  | [], visited => visited
  | (x, d) :: q, visited =>
    if x ∈ visited then search univ nbrs h md dfs q visited
    else search univ nbrs h md dfs (push dfs q (expand nbrs md x d (x :: visited))) (x :: visited)
termination_by work visited => (unvisited univ visited, work.length)
decreasing_by
  · exact Prod.Lex.right _ (by simp)
  · rename_i hx
    by_cases hu : x ∈ univ
    · apply Prod.Lex.left
      unfold unvisited
      apply filter_length_lt _ _ univ _ x hu
      · simpa using hx
      · simp
      · intro a; simp
    · rw [expand_of_nil nbrs md x d (x :: visited) (h x hu), push_nil, unvisited_cons_of_not_mem univ visited x hu]
      exact Prod.Lex.right _ (by simp)

/-- the visited set of `_bfs` / `_dfs` `(hg, start, max_depth, order|size)` for a start node of the hypergraph -/
def visitH (es : List Edge) (f : Filt) (md : Option Int) (dfs : Bool) (start : Nat) : List Nat :=
  search es.flatten (neighbors es f) (neighbors_nil_of_not_mem es f) md dfs [(start, 0)] []

/-- `if not hg.check_node(start): raise ValueError` -/
def visitFrom (nodes : List Nat) (es : List Edge) (f : Filt) (md : Option Int) (dfs : Bool) (start : Nat) :
    Option (List Nat) :=
  if start ∈ nodes then some (visitH es f md dfs start) else none

/-! ## the same loop on a table of recorded `get_neighbors` answers -/

/-- the recorded answer of `get_neighbors(x)`, in the iteration order of the returned set; `[]` for an unknown node -/
def nbrsTab : List (Nat × List Nat) → Nat → List Nat
  | [], _ => []
  | (k, l) :: t, x => if k = x then l else nbrsTab t x

theorem nbrsTab_nil_of_not_mem (tab : List (Nat × List Nat)) (x : Nat) (hx : x ∉ tab.map (·.1)) : nbrsTab tab x = [] := by
  induction tab with
  | nil => rfl
  | cons p t ih =>
    obtain ⟨k, l⟩ := p
    simp only [List.map_cons, List.mem_cons, not_or] at hx
    simp only [nbrsTab, if_neg (Ne.symm hx.1), ih hx.2]

/-- `_bfs` / `_dfs` over the recorded table -/
def visitTab (tab : List (Nat × List Nat)) (md : Option Int) (dfs : Bool) (start : Nat) : List Nat :=
  search (tab.map (·.1)) (nbrsTab tab) (nbrsTab_nil_of_not_mem tab) md dfs [(start, 0)] []

end C08
