import Hgxv.Model.AList
/-! Model of the random generators (core Lean only):
`hypergraphx/generation/random.py`  (`random_hypergraph`, `random_uniform_hypergraph`, `add_random_edge(s)`,
`random_shuffle` **as repaired for D27**, `random_shuffle_all_orders`),
`hypergraphx/generation/scale_free.py` (**as repaired for D26**) and
`hypergraphx/generation/activity_driven.py` (`HOADmodel`).

Every routine is a deterministic function of its *draws* (results of `random.sample`, `np.random.choice`,
`random.random`), which are explicit arguments.  A `Hypergraph` is its abstract content: weighted flag, node list
(insertion order), insertion-ordered association list hyperedge -> (weight, metadata token); token `0` is `{}`.
The stateful core (`add_edge`, `remove_edge`) is the abstract specification proved for the class in C01. -/
namespace C14

abbrev Edge := List Nat
/-- (weight, metadata token) -/
abbrev Rec := Nat × Nat

structure HG where
  weighted : Bool := false
  nodes : List Nat := []
  edges : List (Edge × Rec) := []
deriving Repr, DecidableEq, Inhabited

def insertSorted (a : Nat) : List Nat → List Nat
  | [] => [a]
  | b :: bs => if a ≤ b then a :: b :: bs else b :: insertSorted a bs
/-- `tuple(sorted(edge))` (insertion sort: structural, so that closed examples reduce in the kernel) -/
def sortE (e : List Nat) : Edge := e.foldr insertSorted []

/-- append if absent: `set.add`, `add_node` on the node table, a new dict key -/
def insNew {α} [DecidableEq α] (acc : List α) (x : α) : List α := if x ∈ acc then acc else acc ++ [x]
def insAll {α} [DecidableEq α] (acc : List α) (l : List α) : List α := l.foldl insNew acc
/-- `set(list)` / a set filled element by element, in first-occurrence order -/
def dedup {α} [DecidableEq α] (l : List α) : List α := insAll [] l

def keys (h : HG) : List Edge := AL.keys h.edges

/-- `add_edge`, branch "hyperedge is new": id allocated, weight `1` when unweighted, nodes touched -/
def addEdgeNew (h : HG) (e : Edge) (w md : Nat) : HG :=
  { h with edges := h.edges ++ [(e, ((if h.weighted then w else 1), md))], nodes := insAll h.nodes e }
/-- `add_edge`, branch "hyperedge exists": weight accumulated when weighted, metadata replaced -/
def addEdgeOld (h : HG) (e : Edge) (w0 w md : Nat) : HG :=
  { h with edges := AL.set h.edges e ((if h.weighted then w0 + w else w0), md) }
/-- `Hypergraph.add_edge(edge, weight=w, metadata=md)` (`weight=None` is `w = 1`, `metadata=None` is `md = 0`) -/
def addEdge (h : HG) (raw : List Nat) (w md : Nat) : HG :=
  match AL.get? h.edges (sortE raw) with
  | none => addEdgeNew h (sortE raw) w md
  | some r => addEdgeOld h (sortE raw) r.1 w md
/-- a sequence of `add_edge(nodes, weight, metadata)` calls -/
def addMany (h : HG) (L : List (List Nat × Rec)) : HG := L.foldl (fun h t => addEdge h t.1 t.2.1 t.2.2) h
/-- `add_edges(list)` without weights / metadata -/
def addEdges (h : HG) (es : List (List Nat)) : HG := addMany h (es.map (fun e => (e, (1, 0))))
def addNodes (h : HG) (ns : List Nat) : HG := { h with nodes := insAll h.nodes ns }
/-- `remove_edge` of a present hyperedge -/
def removeEdge (h : HG) (e : Edge) : HG := { h with edges := AL.erase h.edges (sortE e) }
def removeEdges (h : HG) (es : List Edge) : HG := es.foldl removeEdge h

def countSize (h : HG) (s : Nat) : Nat := ((keys h).filter (fun e => e.length == s)).length

/-- `order=`/`size=` arguments: both or neither is a `ValueError` (`none`) -/
def resolveSize : Option Nat → Option Nat → Option Nat
  | some _, some _ => none
  | none, none => none
  | none, some s => some s
  | some o, none => some (o + 1)

/-! ## random_hypergraph / random_uniform_hypergraph -/

/-- the inner loop for one size: `count` samples are appended, sorted, then `set(...)` -/
def sizeEdges (count : Nat) (group : List (List Nat)) : List Edge := dedup ((group.take count).map sortE)

/-- the per-size loop shared by `random_hypergraph` and `scale_free_hypergraph`: `E count group` are the distinct
    sorted hyperedges obtained from the draws of one size; they are handed to `add_edges` -/
def genLoop (E : Nat → List (List Nat) → List Edge) (h : HG) : List (Nat × Nat) → List (List (List Nat)) → HG
  | (_, c) :: req, g :: gs => genLoop E (addEdges h (E c g)) req gs
  | _, _ => h

def randomLoop (h : HG) (req : List (Nat × Nat)) (groups : List (List (List Nat))) : HG :=
  genLoop sizeEdges h req groups

/-- `random.sample(nodes, size)` raises when `size > len(nodes)`; it is only called when `count ≥ 1` -/
def admissible (n : Nat) (req : List (Nat × Nat)) : Bool := req.all (fun r => r.2 == 0 || r.1 ≤ n)

/-- `random_hypergraph(n, {size: count})` as a function of the samples, grouped per size in dict order -/
def randomHypergraph (n : Nat) (req : List (Nat × Nat)) (groups : List (List (List Nat))) : HG :=
  randomLoop (addNodes {} (List.range n)) req groups
def randomHypergraph? (n : Nat) (req : List (Nat × Nat)) (groups : List (List (List Nat))) : Option HG :=
  if admissible n req then some (randomHypergraph n req groups) else none
/-- `random_uniform_hypergraph(n, size, count)` = `random_hypergraph(n, {size: count})` -/
def randomUniform (n size count : Nat) (group : List (List Nat)) : HG := randomHypergraph n [(size, count)] [group]

/-! ### the same routine as a program over named random sources (for seed reproducibility) -/

/-- an arbitrary generator algorithm: `seed` determines the state; a draw returns a value and the next state -/
structure RNG (σ : Type) where
  seed : Nat → σ
  sample : σ → List Nat → Nat → List Nat × σ

/-- the ambient states of the two global sources: `random` (py) and `np.random` (np) -/
structure World (σ : Type) where
  py : σ
  np : σ

def drawN {σ} (g : RNG σ) (pop : List Nat) (size : Nat) : Nat → σ → List (List Nat) × σ
  | 0, s => ([], s)
  | c + 1, s =>
    let r := g.sample s pop size
    let rest := drawN g pop size c r.2
    (r.1 :: rest.1, rest.2)

def randomLoopS {σ} (g : RNG σ) (pop : List Nat) (h : HG) : List (Nat × Nat) → σ → HG × σ
  | [], s => (h, s)
  | (sz, c) :: req, s =>
    let r := drawN g pop sz c s
    randomLoopS g pop (addEdges h (sizeEdges c r.1)) req r.2

/-- `if seed is not None: random.seed(seed)` -/
def seedPy {σ} (g : RNG σ) (seed : Option Nat) (w : World σ) : World σ :=
  match seed with
  | some s => { w with py := g.seed s }
  | none => w
def seedNp {σ} (g : RNG σ) (seed : Option Nat) (w : World σ) : World σ :=
  match seed with
  | some s => { w with np := g.seed s }
  | none => w

/-- `random_hypergraph(n, req, seed)`: seeds `random`, then draws every sample from `random` -/
def randomHypergraphM {σ} (g : RNG σ) (n : Nat) (req : List (Nat × Nat)) (seed : Option Nat) (w : World σ) :
    HG × World σ :=
  let w1 := seedPy g seed w
  let r := randomLoopS g (List.range n) (addNodes {} (List.range n)) req w1.py
  (r.1, { w1 with py := r.2 })
def randomUniformM {σ} (g : RNG σ) (n size count : Nat) (seed : Option Nat) (w : World σ) : HG × World σ :=
  randomHypergraphM g n [(size, count)] seed w

/-- the samples the generator hands out, grouped per size (what a recording of the run contains) -/
def groupsOf {σ} (g : RNG σ) (pop : List Nat) : List (Nat × Nat) → σ → List (List (List Nat))
  | [], _ => []
  | (sz, c) :: req, s => (drawN g pop sz c s).1 :: groupsOf g pop req (drawN g pop sz c s).2

/-- lines 122-131 of `random_shuffle`: seeds **np.random**, then draws the indices from **random** -/
def shuffleIndicesM {σ} (g : RNG σ) (m k : Nat) (seed : Option Nat) (w : World σ) : List Nat × World σ :=
  let w1 := seedNp g seed w
  let r := g.sample w1.py (List.range m) k
  (r.1, { w1 with py := r.2 })

/-- replay generator: the state is the queue of recorded results -/
def replayRNG (recorded : List (List Nat)) : RNG (List (List Nat)) where
  seed := fun _ => recorded
  sample := fun q _ _ => match q with
    | d :: r => (d, r)
    | [] => ([], [])

/-! ## add_random_edge / add_random_edges -/

/-- `while len(edges) < k: edges.add(tuple(sorted(sample)))` over the stream of samples -/
def collect (k : Nat) (acc : List Edge) : List (List Nat) → List Edge
  | [] => acc
  | d :: ds => if acc.length < k then collect k (insNew acc (sortE d)) ds else acc

/-- the run returned after consuming exactly these draws -/
def consumedExactly (k : Nat) (acc : List Edge) : List (List Nat) → Bool
  | [] => decide (k ≤ acc.length)
  | d :: ds => decide (acc.length < k) && consumedExactly k (insNew acc (sortE d)) ds

/-- a call returns (argument afterwards, returned object) -/
structure CallResult where
  arg : HG
  ret : Option HG
deriving Repr, DecidableEq

def finish (inplace : Bool) (h h' : HG) : CallResult :=
  if inplace then { arg := h', ret := none } else { arg := h, ret := some h' }

/-! ### which OBJECT carries the result
The routines with an `inplace` option end in `h = hg if inplace else hg.copy()` ... `return h`.  Objects are entries of a
store (object id -> content); mutating an object is `AL.set` at its id. -/

/-- live objects: object id -> content -/
abbrev Heap := List (Nat × HG)

/-- `hg.copy()` allocates an object that did not exist before: an id above every id in use -/
def freshId (H : Heap) : Nat := (AL.keys H).foldl max 0 + 1

/-- hand back the result `h'` of a call on the object `a`: `inplace=True` writes it into `a` and returns nothing (`none`),
    `inplace=False` writes it into a new object and returns that object.  (For `random_shuffle_all_orders(inplace=True)`
    the returned object is `a` itself - see `finishObjAll`.) -/
def finishObj (H : Heap) (a : Nat) (inplace : Bool) (h' : HG) : Heap × Option Nat :=
  if inplace then (AL.set H a h', none) else (AL.set H (freshId H) h', some (freshId H))

/-- `random_shuffle_all_orders` returns `target_hg` in both modes -/
def finishObjAll (H : Heap) (a : Nat) (inplace : Bool) (h' : HG) : Heap × Option Nat :=
  if inplace then (AL.set H a h', some a) else (AL.set H (freshId H) h', some (freshId H))

def addRandomEdge (h : HG) (order size : Option Nat) (inplace : Bool) (draw : List Nat) : Option CallResult :=
  match resolveSize order size with
  | none => none
  | some s => if s ≤ h.nodes.length then some (finish inplace h (addEdge h draw 1 0)) else none

def addRandomEdges (h : HG) (k : Nat) (order size : Option Nat) (inplace : Bool) (draws : List (List Nat)) :
    Option CallResult :=
  match resolveSize order size with
  | none => none
  | some s => if k = 0 ∨ s ≤ h.nodes.length then some (finish inplace h (addEdges h (collect k [] draws))) else none

/-! ## random_shuffle (repaired, D27) / random_shuffle_all_orders -/

/-- `hg.get_edges(size=size)` with weights and metadata -/
def edgesOfSize (h : HG) (size : Nat) : List (Edge × Rec) := h.edges.filter (fun r => r.1.length == size)

/-- `int(p * num_edges)` for `p = pn/pd` -/
def numToRandomize (pn pd m : Nat) : Nat := pn * m / pd

/-- the hyperedges selected for replacement, in the order of `current_edges` -/
def selected (cur : List (Edge × Rec)) (idx : List Nat) (i : Nat) : List Edge :=
  match cur with
  | [] => []
  | r :: rest => if i ∈ idx then r.1 :: selected rest idx (i + 1) else selected rest idx (i + 1)

/-- `pool_nodes`: nodes of the selected hyperedges (first-occurrence order) -/
def pool (cur : List (Edge × Rec)) (idx : List Nat) : List Nat := dedup (selected cur idx 0).flatten
/-- the (unnormalised) weights handed to `np.random.choice` -/
def poolWeights (cur : List (Edge × Rec)) (idx : List Nat) (preserve : Bool) : List Nat :=
  (pool cur idx).map (fun x => if preserve then (selected cur idx 0).flatten.count x else 1)

/-- the re-insertion loop as the list of `add_edge` calls it makes: a selected hyperedge is replaced by the next
    choice (`add_edge(new)`: weight `None`, no metadata), the others come back with their weight and metadata -/
def readdList (idx : List Nat) : List (Edge × Rec) → Nat → List (List Nat) → List (List Nat × Rec)
  | [], _, _ => []
  | r :: rest, i, cs =>
    if i ∈ idx then
      match cs with
      | c :: cs' => (c, (1, 0)) :: readdList idx rest (i + 1) cs'
      | [] => readdList idx rest (i + 1) []
    else r :: readdList idx rest (i + 1) cs

def shuffleCore (h : HG) (size : Nat) (idx : List Nat) (choices : List (List Nat)) : HG :=
  addMany (removeEdges h ((edgesOfSize h size).map (·.1))) (readdList idx (edgesOfSize h size) 0 choices)

/-- `random_shuffle` BEFORE the repair of D27 - kept as a witness only, no theorem is about it: every hyperedge of
    the size is removed and `add_edges(new_edges)` re-inserts all of them without weight and metadata -/
def shuffleCoreUnrepaired (h : HG) (size : Nat) (idx : List Nat) (choices : List (List Nat)) : HG :=
  addEdges (removeEdges h ((edgesOfSize h size).map (·.1)))
    ((readdList idx (edgesOfSize h size) 0 choices).map (·.1))

/-- `random_shuffle(hg, order, size, inplace, p = pn/pd, ...)`; `pn` may be negative or exceed `pd` (rejected) -/
def randomShuffle (h : HG) (order size : Option Nat) (inplace : Bool) (pn : Int) (pd : Nat)
    (idx : List Nat) (choices : List (List Nat)) : Option CallResult :=
  match resolveSize order size with
  | none => none
  | some s => if 0 ≤ pn ∧ pn ≤ pd then some (finish inplace h (shuffleCore h s idx choices)) else none

/-- one pair (indices, choices) per size, in the iteration order of `set(hg.get_sizes())` -/
def shuffleAllLoop (h : HG) : List Nat → List (List Nat × List (List Nat)) → HG
  | s :: sizes, d :: ds => shuffleAllLoop (shuffleCore h s d.1 d.2) sizes ds
  | _, _ => h

def randomShuffleAll (h : HG) (inplace : Bool) (pn : Int) (pd : Nat) (sizes : List Nat)
    (draws : List (List Nat × List (List Nat))) : Option CallResult :=
  if 0 ≤ pn ∧ pn ≤ pd then
    let h' := shuffleAllLoop h sizes draws
    some (if inplace then { arg := h', ret := some h' } else { arg := h, ret := some h' })
  else none

/-! ## scale_free_hypergraph (repaired, D26) -/

/-- the argument checks of lines 37-59, in order; `corr = none` is the default `corr_target=None` -/
def sfValid (sizes : List Nat) (counts : List Int) (scaleKeys : List Nat) (correlated : Bool)
    (corr : Option Rat) (shuffles : Int) : Bool :=
  !(shuffles != 0 && !correlated)
  && !(shuffles < 0)
  && (match corr with | none => true | some c => !(c < 0 || c > 1))
  && !(corr.isSome && !correlated)
  && !(corr.isSome && shuffles != 0)
  && sizes.all (fun k => scaleKeys.contains k)
  && scaleKeys.all (fun k => sizes.contains k)
  && counts.all (fun c => !(c < 0))

def sfLoop (h : HG) (req : List (Nat × Nat)) (groups : List (List (List Nat))) : HG :=
  genLoop (fun c g => collect c [] g) h req groups

def sfReturned : List (Nat × Nat) → List (List (List Nat)) → Bool
  | (_, c) :: req, g :: gs => consumedExactly c [] g && sfReturned req gs
  | (_, c) :: req, [] => c == 0 && sfReturned req []
  | [], gs => gs.isEmpty

/-- `np.random.choice(nodes, size, replace=False)` raises when `size > n` (only called when `count ≥ 1`) -/
def scaleFree (n : Nat) (sizes : List Nat) (counts : List Int) (scaleKeys : List Nat) (correlated : Bool)
    (corr : Option Rat) (shuffles : Int) (groups : List (List (List Nat))) : Option HG :=
  let req := sizes.zip (counts.map Int.toNat)
  if sfValid sizes counts scaleKeys correlated corr shuffles && admissible n req then
    some (sfLoop (addNodes {} (List.range n)) req groups)
  else none

/-! ## HOADmodel -/

/-- one (order, t, node) step: the coin decides activation; an activated node samples `order` partners -/
structure HoadDraw where
  coin : Rat
  sampled : Bool
  sample : List Nat
deriving Repr, DecidableEq

/-- `neigh_list.append(node_i); if len(neigh_list) == len(set(neigh_list))` -/
def hoadEmit (t i : Nat) (s : List Nat) : List (Nat × Edge) :=
  if (s ++ [i]).Nodup then [(t, sortE (s ++ [i]))] else []

/-- contract of `random.sample(range(N), order)` as far as the routine relies on it -/
def sampleOK (N order : Nat) (s : List Nat) : Bool := s.length == order && s.all (· < N)

/-- outcome of a run of the routine on a recording: it returned (`done`), it raised (`raised`: `act_vect[node_i]`
    beyond the end of the activity vector, or `random.sample(range(N), order)` with `order > N`; carries the part of the
    recording that was not consumed), or the recording does not belong to a run of this routine (`stuck`) -/
inductive Run (α : Type) where
  | done (a : α)
  | raised (rest : List HoadDraw)
  | stuck
deriving Repr, DecidableEq

/-- one node: `stuck` when the recording contradicts the branch taken by the model or the sampler's contract;
    an activated node with `order > N` makes `random.sample` raise (after the coin, before any sample is recorded) -/
def hoadNode (N order : Nat) (act : Rat) (t i : Nat) (d : HoadDraw) (ds : List HoadDraw) : Run (List (Nat × Edge)) :=
  if act > d.coin then
    (if order > N then (if d.sampled then .stuck else .raised ds)
     else if d.sampled && sampleOK N order d.sample then .done (hoadEmit t i d.sample) else .stuck)
  else (if d.sampled then .stuck else .done [])

/-- `for node_i in range(N)`: nodes `i, i+1, .., i+k-1` of one time step; the activity is LOOKED UP at position `node_i`
    of the vector (`act_vect[node_i]`), whatever the length of the vector: entries beyond `N` are never read, a vector
    that is too short raises `IndexError` when the loop reaches its end -/
def hoadNodes (N order t : Nat) (acts : List Rat) : Nat → Nat → List HoadDraw → Run (List (Nat × Edge) × List HoadDraw)
  | 0, _, ds => .done ([], ds)
  | k + 1, i, ds =>
    match acts[i]? with
    | none => .raised ds
    | some a =>
      match ds with
      | [] => .stuck
      | d :: ds =>
        match hoadNode N order a t i d ds with
        | .stuck => .stuck
        | .raised r => .raised r
        | .done out =>
          match hoadNodes N order t acts k (i + 1) ds with
          | .done (outs, rest) => .done (out ++ outs, rest)
          | .raised r => .raised r
          | .stuck => .stuck

/-- time steps `t, t+1, .., t+steps-1` -/
def hoadTimes (N order : Nat) (acts : List Rat) : Nat → Nat → List HoadDraw → Run (List (Nat × Edge) × List HoadDraw)
  | 0, _, ds => .done ([], ds)
  | steps + 1, t, ds =>
    match hoadNodes N order t acts N 0 ds with
    | .stuck => .stuck
    | .raised r => .raised r
    | .done (out, rest) =>
      match hoadTimes N order acts steps (t + 1) rest with
      | .done (outs, rest') => .done (out ++ outs, rest')
      | .raised r => .raised r
      | .stuck => .stuck

/-- `for order in activities_per_order.keys()` (dict order) -/
def hoadOrders (N time : Nat) : List (Nat × List Rat) → List HoadDraw → Run (List (Nat × Edge) × List HoadDraw)
  | [], ds => .done ([], ds)
  | (order, acts) :: more, ds =>
    match hoadTimes N order acts time 0 ds with
    | .stuck => .stuck
    | .raised r => .raised r
    | .done (out, rest) =>
      match hoadOrders N time more rest with
      | .done (outs, rest') => .done (out ++ outs, rest')
      | .raised r => .raised r
      | .stuck => .stuck

/-- `HOADmodel(N, activities_per_order, time)`: `done out` = the distinct (time, hyperedge) records of the returned
    `TemporalHypergraph`; `acts` lists (order, activity vector) in dict order, the vectors have ANY length;
    `raised []` = the call raised exactly at the end of the recording; `stuck`: the draws do not follow the pattern
    coin [sample], break the sampler's contract, or are not used up -/
def hoad (N time : Nat) (acts : List (Nat × List Rat)) (draws : List HoadDraw) : Run (List (Nat × Edge)) :=
  match hoadOrders N time acts draws with
  | .done (out, []) => .done (dedup out)
  | .raised [] => .raised []
  | _ => .stuck

end C14
