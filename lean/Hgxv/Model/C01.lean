import Hgxv.Model.AList
/-!
# C01 - executable model of `hypergraphx.Hypergraph` (hypergraphx/core/hypergraph.py) and its abstract spec

Core Lean only (compiled into `driver_c01`).  Everything lives in `namespace C01`.

## API (what later properties C05/C06/C07/C19 build on)

* Types: `Node := Nat` (rank of the label), `Edge := List Nat` (canonical = sorted, see `canon`),
  `Meta := List (Nat × Nat)` (attribute token ↦ value token, an `AL` association list),
  weights are `Int` quanta of 1/4 (`one = 4`), `Filter` = the `order/size/up_to` arguments.
* **Concrete level** `Store`: the tables of the Python object (insertion-ordered association lists)
  `edgeList : key ↦ id`, `rev : id ↦ key`, `weights : id ↦ w`, `emeta : id ↦ Meta`,
  `adj : node ↦ [id]`, `nmeta : node ↦ Meta`, `nextId`, `weighted`, `hmeta`.
  One function per Python method (helpers per branch: `touchNode fillNodeMeta linkNodes addEdgeNew addEdgeOld
  addEdgesValid zipArgs addEdgesLoop unlinkNodes removeEdgeId incidentKeys shrinkInto dropNode`):
  `addNode addNodes addEdge addEdges removeEdge removeEdges removeNode
  removeNodes setWeight setNodeMeta setEdgeMeta setHMeta setAttrH setAttrNode setAttrEdge delAttrNode
  delAttrEdge clear`, all `Store → … → Store × Out` (`Out = ok | rej`; `rej` = the method raised).
  `apply : Store → Op → Store × Out` dispatches; `answer : Store → Query → Ans` are the read-only methods.
* **Abstract level** `Spec`: `nodes : List (Node × Meta)` and `edges : List (Edge × (Int × Meta))`
  (both association lists with distinct keys), `weighted`, `hmeta`.  `Spec.apply`, `Spec.answer` are the
  plain map updates / filters the property speaks of.  `abs : Store → Spec` is the abstraction.
* **Histories**: `State = List Store` (slots, for `copy`), `Cmd = new i w hm | copy i j | on i op`,
  `step : State → Cmd → State × Out`, `run : State → List Cmd → State`, `init k`; same on the spec side
  (`SState`, `Spec.step`, `Spec.run`, `Spec.init`).  `query : State → Nat → Query → Ans`.
* Proved facts to build on (`Hgxv/Proofs/C01*.lean`): `Inv` (representation invariant) with `run_inv`;
  `sim_apply : Inv s → op.WF → Sim (apply s op) (Spec.apply (abs s) op)`; `answer_abs : Inv s → answer s q =
  Spec.answer (abs s) q`; `run_sim`, `query_sim`; `apply_rej`; `Inv.incidentKeys_eq`.
* Well-formedness of inputs (the property's quantifier: hyperedges are node *sets*): `Op.WF`, `Cmd.WF`
  say that every raw hyperedge handed to the store is duplicate-free.

## Conventions

* The model follows the *repaired* code (fix commits for D1 duplicate adjacency, D2
  `remove_attr_from_edge_metadata`, D3 batched calls validate before mutating, D4 `remove_node` deletes
  the node's metadata).
* Python exceptions that are reachable from the public API (validation failures, weight on an unweighted
  hypergraph, missing node/hyperedge/attribute, `max` of nothing, `order` and `size` both given) are modelled
  (`Out.rej` / `Ans.rej`).  A rejection *inside* a loop returns the partially mutated store, as Python
  does (`seqOps`); that this never happens after validation is a theorem, not a definition.
* `KeyError`s on *internal* tables that need a broken state (an id in `_adj` without `_reverse_edge_list`
  entry, a node in `_adj` without `_node_metadata` entry, `list.remove` of an absent id) are totalised with
  neutral defaults (`getD`, `filterMap`); every theorem about such a function carries `Inv`, which excludes
  those states, and `C01_inv` shows that every reachable state satisfies `Inv`.
-/
namespace C01
open AL

abbrev Node := Nat
abbrev Edge := List Nat
abbrev Meta := List (Nat × Nat)

/-- weight 1 in quanta of 1/4 -/
def one : Int := 4

inductive Out | ok | rej deriving DecidableEq, Repr

/-- `del d[k]` (all entries with that key; dict keys are unique, so this is the one entry) -/
def del {α β : Type} [DecidableEq α] (l : List (α × β)) (k : α) : List (α × β) :=
  l.filter (fun p => p.1 ≠ k)

def insertSorted (a : Nat) : List Nat → List Nat
  | [] => [a]
  | b :: bs => if a ≤ b then a :: b :: bs else b :: insertSorted a bs
/-- `tuple(sorted(edge))` -/
def canon (l : List Nat) : Edge := l.foldr insertSorted []

/-- metadata token conventions: attribute 0 = "weighted", attribute 1 = "type";
    value 0 = False, 1 = True, 2 = "Hypergraph" -/
def initHMeta (weighted : Bool) (hm : Meta) : Meta :=
  AL.set (AL.set hm 0 (if weighted then 1 else 0)) 1 2

structure Store where
  weighted : Bool := false
  edgeList : List (Edge × Nat) := []
  rev : List (Nat × Edge) := []
  weights : List (Nat × Int) := []
  emeta : List (Nat × Meta) := []
  adj : List (Node × List Nat) := []
  nmeta : List (Node × Meta) := []
  nextId : Nat := 0
  hmeta : Meta := []
  deriving DecidableEq, Repr

/-- `Hypergraph(weighted=w, hypergraph_metadata=hm)` -/
def Store.new (w : Bool) (hm : Meta) : Store := { weighted := w, hmeta := initHMeta w hm }

/-- the `order= / size= / up_to=` arguments of the query methods -/
structure Filter where
  order : Option Int := none
  size : Option Int := none
  upTo : Bool := false
  deriving DecidableEq, Repr

/-- `none` = both `order` and `size` given (ValueError); `some none` = no filter;
    `some (some o)` = keep hyperedges with `len(edge) - 1 == o` (or `<= o` with up_to) -/
def Filter.resolve (f : Filter) : Option (Option Int) :=
  match f.order, f.size with
  | some _, some _ => none
  | none, none => some none
  | some o, none => some (some o)
  | none, some k => some (some (k - 1))

/-- the test `len(edge) - 1 == order` / `len(edge) - 1 <= order` -/
def keepEdge (o : Option Int) (upTo : Bool) (e : Edge) : Bool :=
  match o with
  | none => true
  | some o => if upTo then ((e.length : Int) - 1 ≤ o) else ((e.length : Int) - 1 == o)

/-- run a list of sub-calls; the first rejection aborts and leaves the store as it is at that moment -/
def seqOps {α σ : Type} (f : σ → α → σ × Out) : σ → List α → σ × Out
  | s, [] => (s, .ok)
  | s, a :: as =>
    match f s a with
    | (s', .ok) => seqOps f s' as
    | (s', .rej) => (s', .rej)

/-! ### nodes -/

/-- `if node not in self._adj: self._adj[node] = []; self._node_metadata[node] = {}` -/
def touchNode (s : Store) (n : Node) : Store :=
  if (get? s.adj n).isSome then s
  else { s with adj := AL.set s.adj n [], nmeta := AL.set s.nmeta n [] }

/-- `if self._node_metadata[node] == {}: self._node_metadata[node] = metadata` -/
def fillNodeMeta (s : Store) (n : Node) (md : Meta) : Store :=
  match get? s.nmeta n with
  | some [] => { s with nmeta := AL.set s.nmeta n md }
  | _ => s

/-- `add_node(node, metadata)` - never raises -/
def addNode (s : Store) (n : Node) (md : Option Meta) : Store :=
  fillNodeMeta (touchNode s n) n (md.getD [])

/-- `add_nodes(node_list, metadata)`: `metadata` (a dict node ↦ dict) must cover the list (validated first) -/
def addNodes (s : Store) (ns : List Node) (mds : Option (List (Node × Meta))) : Store × Out :=
  match mds with
  | none => (ns.foldl (fun s n => addNode s n none) s, .ok)
  | some t =>
    if ns.all (fun n => (get? t n).isSome) then
      (ns.foldl (fun s n => addNode s n (get? t n)) s, .ok)
    else (s, .rej)

/-! ### hyperedges -/

/-- `for node in edge: self.add_node(node); self._adj[node].append(id)`
    (`add_node(node)` without metadata is `touchNode`: the `== {}` branch replaces `{}` by `{}`) -/
def linkNodes (s : Store) (id : Nat) : List Node → Store
  | [] => s
  | n :: ns =>
    let s := touchNode s n
    let s := { s with adj := AL.set s.adj n (((get? s.adj n).getD []) ++ [id]) }
    linkNodes s id ns

/-- branch `edge not in self._edge_list` of `add_edge` -/
def addEdgeNew (s : Store) (e : Edge) (wt : Int) (md : Meta) : Store :=
  let id := s.nextId
  linkNodes { s with edgeList := AL.set s.edgeList e id, rev := AL.set s.rev id e,
                     weights := AL.set s.weights id (if s.weighted then wt else one),
                     emeta := AL.set s.emeta id md, nextId := id + 1 } id e

/-- branch `edge in self._edge_list` of `add_edge` (adjacency untouched) -/
def addEdgeOld (s : Store) (id : Nat) (wt : Int) (md : Meta) : Store :=
  { s with weights := if s.weighted then AL.set s.weights id (((get? s.weights id).getD 0) + wt) else s.weights,
           emeta := AL.set s.emeta id md }

/-- `add_edge(edge, weight, metadata)` -/
def addEdge (s : Store) (raw : List Nat) (w : Option Int) (md : Option Meta) : Store × Out :=
  if !s.weighted && w.isSome && w != some one then (s, .rej) else
  match get? s.edgeList (canon raw) with
  | none => (addEdgeNew s (canon raw) (w.getD one) (md.getD []), .ok)
  | some id => (addEdgeOld s id (w.getD one) (md.getD []), .ok)

/-- the `i`-th call of the loop in `add_edges` -/
def addEdgesLoop (useW : Bool) : Store → List (List Nat × Option Int × Option Meta) → Store × Out :=
  seqOps (fun s (x : List Nat × Option Int × Option Meta) => addEdge s x.1 (if useW then x.2.1 else none) x.2.2)

/-- pair every hyperedge with `weights[i]` and `metadata[i]` -/
def zipArgs : List (List Nat) → Option (List Int) → Option (List Meta) → List (List Nat × Option Int × Option Meta)
  | [], _, _ => []
  | r :: rs, ws, mds =>
    (r, (ws.bind List.head?), (mds.bind List.head?)) :: zipArgs rs (ws.map List.tail) (mds.map List.tail)

/-- the checks `add_edges` makes before the first mutation -/
def addEdgesValid (raws : List (List Nat)) (ws : Option (List Int)) (mds : Option (List Meta)) : Bool :=
  (match ws with
    | none => true
    | some l => decide raws.Nodup && l.length == raws.length) &&
  (match mds with
    | none => true
    | some l => decide (raws.length ≤ l.length))

/-- `add_edges(edge_list, weights, metadata)`: with `weights` the *raw* tuples must be pairwise different
    and as many as the weights; `metadata` must not be shorter than the list; then (and only then) an
    unweighted hypergraph that is given weights becomes weighted -/
def addEdges (s : Store) (raws : List (List Nat)) (ws : Option (List Int)) (mds : Option (List Meta)) : Store × Out :=
  if addEdgesValid raws ws mds then
    addEdgesLoop ws.isSome { s with weighted := s.weighted || ws.isSome } (zipArgs raws ws mds)
  else (s, .rej)

/-- `for node in edge: self._adj[node].remove(id)` -/
def unlinkNodes (adj : List (Node × List Nat)) (id : Nat) : List Node → List (Node × List Nat)
  | [] => adj
  | n :: ns =>
    let adj := match get? adj n with
      | some ids => AL.set adj n (ids.erase id)
      | none => adj
    unlinkNodes adj id ns

/-- the deletions of `remove_edge` once the id is known -/
def removeEdgeId (s : Store) (e : Edge) (id : Nat) : Store :=
  { s with adj := unlinkNodes s.adj id e, rev := del s.rev id, emeta := del s.emeta id,
           weights := del s.weights id, edgeList := del s.edgeList e }

/-- `remove_edge(edge)` -/
def removeEdge (s : Store) (raw : List Nat) : Store × Out :=
  match get? s.edgeList (canon raw) with
  | none => (s, .rej)
  | some id => (removeEdgeId s (canon raw) id, .ok)

/-- `remove_edges(edge_list)`: every member present and no member twice (validated first) -/
def removeEdges (s : Store) (raws : List (List Nat)) : Store × Out :=
  if raws.all (fun r => (get? s.edgeList (canon r)).isSome) && decide (raws.map canon).Nodup then
    seqOps removeEdge s raws
  else (s, .rej)

/-- `[self._reverse_edge_list[id] for id in self._adj[node]]` -/
def incidentKeys (s : Store) (n : Node) : List Edge :=
  ((get? s.adj n).getD []).filterMap (get? s.rev)

def weightOf (s : Store) (e : Edge) : Int := ((get? s.edgeList e).bind (get? s.weights)).getD 0
def emetaOf (s : Store) (e : Edge) : Meta := ((get? s.edgeList e).bind (get? s.emeta)).getD []

/-- body of the `keep_edges=True` loop: re-insert the hyperedge without the node -/
def shrinkInto (n : Node) (s : Store) (e : Edge) : Store × Out :=
  addEdge s (e.filter (· ≠ n)) (some (weightOf s e)) (some (emetaOf s e))

/-- `del self._adj[node]; del self._node_metadata[node]` -/
def dropNode (s : Store) (n : Node) : Store :=
  { s with adj := del s.adj n, nmeta := del s.nmeta n }

/-- `remove_node(node, keep_edges)` -/
def removeNode (s : Store) (n : Node) (keep : Bool) : Store × Out :=
  if !(get? s.adj n).isSome then (s, .rej) else
  let es := incidentKeys s n
  match (if keep then seqOps (shrinkInto n) s es else (s, .ok)) with
  | (s1, .rej) => (s1, .rej)
  | (s1, .ok) =>
    match removeEdges s1 es with
    | (s2, .rej) => (s2, .rej)
    | (s2, .ok) => (dropNode s2 n, .ok)

/-- `remove_nodes(node_list, keep_edges)`: every member present and no member twice (validated first) -/
def removeNodes (s : Store) (ns : List Node) (keep : Bool) : Store × Out :=
  if ns.all (fun n => (get? s.adj n).isSome) && decide ns.Nodup then
    seqOps (fun s n => removeNode s n keep) s ns
  else (s, .rej)

/-- `set_weight(edge, weight)` -/
def setWeight (s : Store) (raw : List Nat) (w : Int) : Store × Out :=
  if !s.weighted && w != one then (s, .rej) else
  match get? s.edgeList (canon raw) with
  | none => (s, .rej)
  | some id => ({ s with weights := AL.set s.weights id w }, .ok)

/-! ### metadata -/

def setNodeMeta (s : Store) (n : Node) (md : Meta) : Store × Out :=
  if (get? s.adj n).isSome then ({ s with nmeta := AL.set s.nmeta n md }, .ok) else (s, .rej)

def setEdgeMeta (s : Store) (raw : List Nat) (md : Meta) : Store × Out :=
  match get? s.edgeList (canon raw) with
  | none => (s, .rej)
  | some id => ({ s with emeta := AL.set s.emeta id md }, .ok)

def setHMeta (s : Store) (md : Meta) : Store × Out := ({ s with hmeta := md }, .ok)

def setAttrH (s : Store) (k v : Nat) : Store × Out := ({ s with hmeta := AL.set s.hmeta k v }, .ok)

def setAttrNode (s : Store) (n : Node) (k v : Nat) : Store × Out :=
  match get? s.nmeta n with
  | none => (s, .rej)
  | some md => ({ s with nmeta := AL.set s.nmeta n (AL.set md k v) }, .ok)

def setAttrEdge (s : Store) (raw : List Nat) (k v : Nat) : Store × Out :=
  match get? s.edgeList (canon raw) with
  | none => (s, .rej)
  | some id => ({ s with emeta := AL.set s.emeta id (AL.set ((get? s.emeta id).getD []) k v) }, .ok)

/-- `del self._node_metadata[node][field]` (KeyError when the field is absent) -/
def delAttrNode (s : Store) (n : Node) (k : Nat) : Store × Out :=
  match get? s.nmeta n with
  | none => (s, .rej)
  | some md => if (get? md k).isSome then ({ s with nmeta := AL.set s.nmeta n (del md k) }, .ok) else (s, .rej)

def delAttrEdge (s : Store) (raw : List Nat) (k : Nat) : Store × Out :=
  match get? s.edgeList (canon raw) with
  | none => (s, .rej)
  | some id =>
    let md := (get? s.emeta id).getD []
    if (get? md k).isSome then ({ s with emeta := AL.set s.emeta id (del md k) }, .ok) else (s, .rej)

/-- `clear()`: every table and the hypergraph metadata; `_weighted` and `_next_edge_id` stay -/
def clear (s : Store) : Store × Out :=
  ({ s with edgeList := [], rev := [], weights := [], emeta := [], adj := [], nmeta := [], hmeta := [] }, .ok)

/-! ### operations and histories -/

inductive Op
  | addNode (n : Node) (md : Option Meta)
  | addNodes (ns : List Node) (mds : Option (List (Node × Meta)))
  | addEdge (raw : List Nat) (w : Option Int) (md : Option Meta)
  | addEdges (raws : List (List Nat)) (ws : Option (List Int)) (mds : Option (List Meta))
  | removeEdge (raw : List Nat)
  | removeEdges (raws : List (List Nat))
  | removeNode (n : Node) (keep : Bool)
  | removeNodes (ns : List Node) (keep : Bool)
  | setWeight (raw : List Nat) (w : Int)
  | setNodeMeta (n : Node) (md : Meta)
  | setEdgeMeta (raw : List Nat) (md : Meta)
  | setHMeta (md : Meta)
  | setAttrH (k v : Nat)
  | setAttrNode (n : Node) (k v : Nat)
  | setAttrEdge (raw : List Nat) (k v : Nat)
  | delAttrNode (n : Node) (k : Nat)
  | delAttrEdge (raw : List Nat) (k : Nat)
  | clear
  deriving DecidableEq, Repr

/-- every raw hyperedge the operation hands to the store is duplicate-free (a node *set*) -/
def Op.WF : Op → Prop
  | .addEdge raw _ _ => raw.Nodup
  | .addEdges raws _ _ => ∀ r ∈ raws, r.Nodup
  | _ => True

def apply (s : Store) : Op → Store × Out
  | .addNode n md => (addNode s n md, .ok)
  | .addNodes ns mds => addNodes s ns mds
  | .addEdge raw w md => addEdge s raw w md
  | .addEdges raws ws mds => addEdges s raws ws mds
  | .removeEdge raw => removeEdge s raw
  | .removeEdges raws => removeEdges s raws
  | .removeNode n keep => removeNode s n keep
  | .removeNodes ns keep => removeNodes s ns keep
  | .setWeight raw w => setWeight s raw w
  | .setNodeMeta n md => setNodeMeta s n md
  | .setEdgeMeta raw md => setEdgeMeta s raw md
  | .setHMeta md => setHMeta s md
  | .setAttrH k v => setAttrH s k v
  | .setAttrNode n k v => setAttrNode s n k v
  | .setAttrEdge raw k v => setAttrEdge s raw k v
  | .delAttrNode n k => delAttrNode s n k
  | .delAttrEdge raw k => delAttrEdge s raw k
  | .clear => clear s

/-- a command of a history: the state is an array of hypergraphs (slots) -/
inductive Cmd
  | new (i : Nat) (weighted : Bool) (hm : Meta)
  | copy (i j : Nat)
  | on (i : Nat) (op : Op)
  deriving DecidableEq, Repr

def Cmd.WF : Cmd → Prop
  | .on _ op => op.WF
  | _ => True

abbrev State := List Store

def init (k : Nat) : State := List.replicate k (Store.new false [])

def step (st : State) : Cmd → State × Out
  | .new i w hm => if i < st.length then (st.set i (Store.new w hm), .ok) else (st, .rej)
  | .copy i j =>
    match st[i]? with
    | some s => if j < st.length then (st.set j s, .ok) else (st, .rej)
    | none => (st, .rej)
  | .on i op =>
    match st[i]? with
    | some s => let r := apply s op; (st.set i r.1, r.2)
    | none => (st, .rej)

def run (st : State) (cs : List Cmd) : State := cs.foldl (fun st c => (step st c).1) st

/-! ### queries (concrete level: read the tables the way the methods do) -/

inductive Ans
  | rej
  | bool (b : Bool)
  | int (i : Int)
  | nats (l : List Nat)
  | ints (l : List Int)
  | edges (l : List Edge)
  | dict (m : Meta)
  | nmetas (l : List (Node × Meta))
  | emetas (l : List (Edge × Meta))
  | ews (l : List (Edge × Int))
  | pairs (l : List (Int × Nat))
  deriving DecidableEq, Repr

inductive Query
  | nodes | nodesMeta | checkNode (n : Node) | numNodes
  | edges (f : Filter) | edgesMeta (f : Filter) | numEdges (f : Filter) | len | iter
  | checkEdge (raw : List Nat) | weight (raw : List Nat) | weights (f : Filter) | weightsDict (f : Filter)
  | incident (n : Node) (f : Filter) | neighbors (n : Node) (f : Filter)
  | degree (n : Node) (f : Filter) | degreeSeq (f : Filter) | degreeDist (f : Filter)
  | sizes | orders | sizeDist | maxSize | maxOrder | isUniform | isWeighted
  | nodeMeta (n : Node) | edgeMeta (raw : List Nat) | allNodesMeta | allEdgesMeta | hmeta
  | isolated (f : Filter) | isIsolated (n : Node) (f : Filter)
  deriving DecidableEq, Repr

/-- `dict(Counter(xs))` : value ↦ multiplicity, in order of first appearance -/
def counter (xs : List Int) : List (Int × Nat) :=
  xs.foldl (fun acc x => AL.set acc x (((get? acc x).getD 0) + 1)) []

/-- maximum of a non-empty list (`max([])` raises) -/
def maxOf : List Int → Option Int
  | [] => none
  | x :: xs => some (xs.foldl max x)

/-- `set().update(edge) for edge in edges; discard(node)` as a duplicate-free list -/
def unionWithout (n : Node) (es : List Edge) : List Nat :=
  (es.flatten.eraseDups).filter (· ≠ n)

/-- `get_edges(order, size, up_to)` -/
def edgesF (s : Store) (f : Filter) : Option (List Edge) :=
  f.resolve.map fun o => (keys s.edgeList).filter (keepEdge o f.upTo)

/-- `get_incident_edges(node, order, size)` (no `up_to`); outer `none` = raised -/
def incidentF (s : Store) (n : Node) (f : Filter) : Option (List Edge) :=
  if !(get? s.adj n).isSome then none else
  f.resolve.map fun o => (incidentKeys s n).filter (keepEdge o false)

def neighborsF (s : Store) (n : Node) (f : Filter) : Option (List Nat) :=
  (incidentF s n f).map (unionWithout n)

/-- `measures.degree.degree_sequence`: both given rejected, else `{node: degree(node, order)}` -/
def degreeSeqF (s : Store) (f : Filter) : Option (List (Node × Nat)) :=
  f.resolve.map fun o => (keys s.adj).map fun n => (n, ((incidentKeys s n).filter (keepEdge o false)).length)

def ofOpt {α} (mk : α → Ans) : Option α → Ans
  | none => .rej
  | some a => mk a

def answer (s : Store) : Query → Ans
  | .nodes => .nats (keys s.adj)
  | .nodesMeta => .nmetas ((keys s.adj).map fun n => (n, (get? s.nmeta n).getD []))
  | .checkNode n => .bool (get? s.adj n).isSome
  | .numNodes => .int (keys s.adj).length
  | .edges f => ofOpt .edges (edgesF s f)
  | .edgesMeta f => ofOpt .emetas ((edgesF s f).map fun es => es.map fun e => (e, emetaOf s e))
  | .numEdges f => ofOpt (fun es => .int (List.length es)) (edgesF s f)
  | .len => .int s.edgeList.length
  | .iter => .edges (keys s.edgeList)
  | .checkEdge raw => .bool (get? s.edgeList (canon raw)).isSome
  | .weight raw => match get? s.edgeList (canon raw) with
    | none => .rej
    | some id => .int ((get? s.weights id).getD 0)
  | .weights f => ofOpt .ints ((edgesF s f).map fun es => es.map (weightOf s))
  | .weightsDict f => ofOpt .ews ((edgesF s f).map fun es => es.map fun e => (e, weightOf s e))
  | .incident n f => ofOpt .edges (incidentF s n f)
  | .neighbors n f => ofOpt .nats (neighborsF s n f)
  | .degree n f => ofOpt (fun es => .int (List.length es)) (incidentF s n f)
  | .degreeSeq f => ofOpt (fun l => .pairs (l.map fun p => ((p.1 : Int), p.2))) (degreeSeqF s f)
  | .degreeDist f => ofOpt (fun l => .pairs (counter (l.map fun p => (p.2 : Int)))) (degreeSeqF s f)
  | .sizes => .ints ((keys s.edgeList).map fun e => (e.length : Int))
  | .orders => .ints ((keys s.edgeList).map fun e => (e.length : Int) - 1)
  | .sizeDist => .pairs (counter ((keys s.edgeList).map fun e => (e.length : Int)))
  | .maxSize => ofOpt .int (maxOf ((keys s.edgeList).map fun e => (e.length : Int)))
  | .maxOrder => ofOpt .int ((maxOf ((keys s.edgeList).map fun e => (e.length : Int))).map (· - 1))
  | .isUniform => .bool (match keys s.edgeList with
    | [] => true
    | e :: es => es.all fun e' => e'.length == e.length)
  | .isWeighted => .bool s.weighted
  | .nodeMeta n => if (get? s.adj n).isSome then .dict ((get? s.nmeta n).getD []) else .rej
  | .edgeMeta raw => match get? s.edgeList (canon raw) with
    | none => .rej
    | some id => .dict ((get? s.emeta id).getD [])
  | .allNodesMeta => .nmetas s.nmeta
  | .allEdgesMeta => .emetas (s.edgeList.map fun p => (p.1, (get? s.emeta p.2).getD []))
  | .hmeta => .dict s.hmeta
  | .isolated f => ofOpt .nats (f.resolve.map fun o =>
      (keys s.adj).filter fun n => (unionWithout n ((incidentKeys s n).filter (keepEdge o false))).isEmpty)
  | .isIsolated n f =>
    -- `utils.cc.is_isolated`: both given is rejected first, then `get_neighbors` (missing node raises)
    match f.resolve with
    | none => .rej
    | some _ => ofOpt (fun l => .bool (List.isEmpty l)) (neighborsF s n f)

def query (st : State) (i : Nat) (q : Query) : Ans :=
  match st[i]? with
  | some s => answer s q
  | none => .rej

/-! ## The abstract hypergraph: nodes with metadata + map from node sets to (weight, metadata) -/

structure Spec where
  weighted : Bool := false
  nodes : List (Node × Meta) := []
  edges : List (Edge × (Int × Meta)) := []
  hmeta : Meta := []
  deriving DecidableEq, Repr

namespace Spec

def new (w : Bool) (hm : Meta) : Spec := { weighted := w, hmeta := initHMeta w hm }

def touchNode (a : Spec) (n : Node) : Spec :=
  if (get? a.nodes n).isSome then a else { a with nodes := AL.set a.nodes n [] }

def addNode (a : Spec) (n : Node) (md : Option Meta) : Spec :=
  let a := touchNode a n
  match get? a.nodes n with
  | some [] => { a with nodes := AL.set a.nodes n (md.getD []) }
  | _ => a

def addNodes (a : Spec) (ns : List Node) (mds : Option (List (Node × Meta))) : Spec × Out :=
  match mds with
  | none => (ns.foldl (fun a n => addNode a n none) a, .ok)
  | some t =>
    if ns.all (fun n => (get? t n).isSome) then (ns.foldl (fun a n => addNode a n (get? t n)) a, .ok)
    else (a, .rej)

/-- map update: a new key gets `(w, md)` (weight 1 when unweighted) and its nodes join the node set;
    an existing key gets its weight increased (weighted) and its metadata replaced -/
def addEdge (a : Spec) (raw : List Nat) (w : Option Int) (md : Option Meta) : Spec × Out :=
  if !a.weighted && w.isSome && w != some one then (a, .rej) else
  let e := canon raw
  match get? a.edges e with
  | none =>
    let a := { a with edges := AL.set a.edges e (if a.weighted then w.getD one else one, md.getD []) }
    (e.foldl touchNode a, .ok)
  | some (w0, _) =>
    ({ a with edges := AL.set a.edges e (if a.weighted then w0 + w.getD one else w0, md.getD []) }, .ok)

def addEdges (a : Spec) (raws : List (List Nat)) (ws : Option (List Int)) (mds : Option (List Meta)) : Spec × Out :=
  if addEdgesValid raws ws mds then
    seqOps (fun a (x : List Nat × Option Int × Option Meta) => addEdge a x.1 (if ws.isSome then x.2.1 else none) x.2.2)
      { a with weighted := a.weighted || ws.isSome } (zipArgs raws ws mds)
  else (a, .rej)

def removeEdge (a : Spec) (raw : List Nat) : Spec × Out :=
  if (get? a.edges (canon raw)).isSome then ({ a with edges := del a.edges (canon raw) }, .ok) else (a, .rej)

def removeEdges (a : Spec) (raws : List (List Nat)) : Spec × Out :=
  if raws.all (fun r => (get? a.edges (canon r)).isSome) && decide (raws.map canon).Nodup then
    seqOps removeEdge a raws
  else (a, .rej)

/-- the keys that contain the node, in map order -/
def incidentKeys (a : Spec) (n : Node) : List Edge := (keys a.edges).filter (fun e => decide (n ∈ e))

def weightOf (a : Spec) (e : Edge) : Int := ((get? a.edges e).map (·.1)).getD 0
def emetaOf (a : Spec) (e : Edge) : Meta := ((get? a.edges e).map (·.2)).getD []

def shrinkInto (n : Node) (a : Spec) (e : Edge) : Spec × Out :=
  addEdge a (e.filter (· ≠ n)) (some (weightOf a e)) (some (emetaOf a e))

def removeNode (a : Spec) (n : Node) (keep : Bool) : Spec × Out :=
  if !(get? a.nodes n).isSome then (a, .rej) else
  let es := incidentKeys a n
  match (if keep then seqOps (shrinkInto n) a es else (a, .ok)) with
  | (a1, .rej) => (a1, .rej)
  | (a1, .ok) =>
    match removeEdges a1 es with
    | (a2, .rej) => (a2, .rej)
    | (a2, .ok) => ({ a2 with nodes := del a2.nodes n }, .ok)

def removeNodes (a : Spec) (ns : List Node) (keep : Bool) : Spec × Out :=
  if ns.all (fun n => (get? a.nodes n).isSome) && decide ns.Nodup then
    seqOps (fun a n => removeNode a n keep) a ns
  else (a, .rej)

def setWeight (a : Spec) (raw : List Nat) (w : Int) : Spec × Out :=
  if !a.weighted && w != one then (a, .rej) else
  match get? a.edges (canon raw) with
  | none => (a, .rej)
  | some (_, md) => ({ a with edges := AL.set a.edges (canon raw) (w, md) }, .ok)

def setNodeMeta (a : Spec) (n : Node) (md : Meta) : Spec × Out :=
  if (get? a.nodes n).isSome then ({ a with nodes := AL.set a.nodes n md }, .ok) else (a, .rej)

def setEdgeMeta (a : Spec) (raw : List Nat) (md : Meta) : Spec × Out :=
  match get? a.edges (canon raw) with
  | none => (a, .rej)
  | some (w, _) => ({ a with edges := AL.set a.edges (canon raw) (w, md) }, .ok)

def setAttrNode (a : Spec) (n : Node) (k v : Nat) : Spec × Out :=
  match get? a.nodes n with
  | none => (a, .rej)
  | some md => ({ a with nodes := AL.set a.nodes n (AL.set md k v) }, .ok)

def setAttrEdge (a : Spec) (raw : List Nat) (k v : Nat) : Spec × Out :=
  match get? a.edges (canon raw) with
  | none => (a, .rej)
  | some (w, md) => ({ a with edges := AL.set a.edges (canon raw) (w, AL.set md k v) }, .ok)

def delAttrNode (a : Spec) (n : Node) (k : Nat) : Spec × Out :=
  match get? a.nodes n with
  | none => (a, .rej)
  | some md => if (get? md k).isSome then ({ a with nodes := AL.set a.nodes n (del md k) }, .ok) else (a, .rej)

def delAttrEdge (a : Spec) (raw : List Nat) (k : Nat) : Spec × Out :=
  match get? a.edges (canon raw) with
  | none => (a, .rej)
  | some (w, md) =>
    if (get? md k).isSome then ({ a with edges := AL.set a.edges (canon raw) (w, del md k) }, .ok) else (a, .rej)

def apply (a : Spec) : Op → Spec × Out
  | .addNode n md => (addNode a n md, .ok)
  | .addNodes ns mds => addNodes a ns mds
  | .addEdge raw w md => addEdge a raw w md
  | .addEdges raws ws mds => addEdges a raws ws mds
  | .removeEdge raw => removeEdge a raw
  | .removeEdges raws => removeEdges a raws
  | .removeNode n keep => removeNode a n keep
  | .removeNodes ns keep => removeNodes a ns keep
  | .setWeight raw w => setWeight a raw w
  | .setNodeMeta n md => setNodeMeta a n md
  | .setEdgeMeta raw md => setEdgeMeta a raw md
  | .setHMeta md => ({ a with hmeta := md }, .ok)
  | .setAttrH k v => ({ a with hmeta := AL.set a.hmeta k v }, .ok)
  | .setAttrNode n k v => setAttrNode a n k v
  | .setAttrEdge raw k v => setAttrEdge a raw k v
  | .delAttrNode n k => delAttrNode a n k
  | .delAttrEdge raw k => delAttrEdge a raw k
  | .clear => ({ a with nodes := [], edges := [], hmeta := [] }, .ok)

def edgesF (a : Spec) (f : Filter) : Option (List Edge) :=
  f.resolve.map fun o => (keys a.edges).filter (keepEdge o f.upTo)

def incidentF (a : Spec) (n : Node) (f : Filter) : Option (List Edge) :=
  if !(get? a.nodes n).isSome then none else
  f.resolve.map fun o => (incidentKeys a n).filter (keepEdge o false)

def neighborsF (a : Spec) (n : Node) (f : Filter) : Option (List Nat) :=
  (incidentF a n f).map (unionWithout n)

def degreeSeqF (a : Spec) (f : Filter) : Option (List (Node × Nat)) :=
  f.resolve.map fun o => (keys a.nodes).map fun n => (n, ((incidentKeys a n).filter (keepEdge o false)).length)

/-- every query as a filter / map over the node list and the key ↦ (weight, metadata) map -/
def answer (a : Spec) : Query → Ans
  | .nodes => .nats (keys a.nodes)
  | .nodesMeta => .nmetas a.nodes
  | .checkNode n => .bool (get? a.nodes n).isSome
  | .numNodes => .int (keys a.nodes).length
  | .edges f => ofOpt .edges (edgesF a f)
  | .edgesMeta f => ofOpt .emetas ((edgesF a f).map fun es => es.map fun e => (e, emetaOf a e))
  | .numEdges f => ofOpt (fun es => .int (List.length es)) (edgesF a f)
  | .len => .int a.edges.length
  | .iter => .edges (keys a.edges)
  | .checkEdge raw => .bool (get? a.edges (canon raw)).isSome
  | .weight raw => match get? a.edges (canon raw) with
    | none => .rej
    | some (w, _) => .int w
  | .weights f => ofOpt .ints ((edgesF a f).map fun es => es.map (weightOf a))
  | .weightsDict f => ofOpt .ews ((edgesF a f).map fun es => es.map fun e => (e, weightOf a e))
  | .incident n f => ofOpt .edges (incidentF a n f)
  | .neighbors n f => ofOpt .nats (neighborsF a n f)
  | .degree n f => ofOpt (fun es => .int (List.length es)) (incidentF a n f)
  | .degreeSeq f => ofOpt (fun l => .pairs (l.map fun p => ((p.1 : Int), p.2))) (degreeSeqF a f)
  | .degreeDist f => ofOpt (fun l => .pairs (counter (l.map fun p => (p.2 : Int)))) (degreeSeqF a f)
  | .sizes => .ints ((keys a.edges).map fun e => (e.length : Int))
  | .orders => .ints ((keys a.edges).map fun e => (e.length : Int) - 1)
  | .sizeDist => .pairs (counter ((keys a.edges).map fun e => (e.length : Int)))
  | .maxSize => ofOpt .int (maxOf ((keys a.edges).map fun e => (e.length : Int)))
  | .maxOrder => ofOpt .int ((maxOf ((keys a.edges).map fun e => (e.length : Int))).map (· - 1))
  | .isUniform => .bool (match keys a.edges with
    | [] => true
    | e :: es => es.all fun e' => e'.length == e.length)
  | .isWeighted => .bool a.weighted
  | .nodeMeta n => match get? a.nodes n with
    | some md => .dict md
    | none => .rej
  | .edgeMeta raw => match get? a.edges (canon raw) with
    | none => .rej
    | some (_, md) => .dict md
  | .allNodesMeta => .nmetas a.nodes
  | .allEdgesMeta => .emetas (a.edges.map fun p => (p.1, p.2.2))
  | .hmeta => .dict a.hmeta
  | .isolated f => ofOpt .nats (f.resolve.map fun o =>
      (keys a.nodes).filter fun n => (unionWithout n ((incidentKeys a n).filter (keepEdge o false))).isEmpty)
  | .isIsolated n f =>
    match f.resolve with
    | none => .rej
    | some _ => ofOpt (fun l => .bool (List.isEmpty l)) (neighborsF a n f)

end Spec

abbrev SState := List Spec

def Spec.init (k : Nat) : SState := List.replicate k (Spec.new false [])

def Spec.step (st : SState) : Cmd → SState × Out
  | .new i w hm => if i < st.length then (st.set i (Spec.new w hm), .ok) else (st, .rej)
  | .copy i j =>
    match st[i]? with
    | some s => if j < st.length then (st.set j s, .ok) else (st, .rej)
    | none => (st, .rej)
  | .on i op =>
    match st[i]? with
    | some s => let r := Spec.apply s op; (st.set i r.1, r.2)
    | none => (st, .rej)

def Spec.run (st : SState) (cs : List Cmd) : SState := cs.foldl (fun st c => (Spec.step st c).1) st

def Spec.query (st : SState) (i : Nat) (q : Query) : Ans :=
  match st[i]? with
  | some s => Spec.answer s q
  | none => .rej

/-- abstraction of a concrete store: forget the ids -/
def abs (s : Store) : Spec :=
  { weighted := s.weighted
    nodes := s.nmeta
    edges := s.edgeList.map fun p => (p.1, ((get? s.weights p.2).getD 0, (get? s.emeta p.2).getD []))
    hmeta := s.hmeta }

end C01
