import Hgxv.Model.C07
/-! # C07 — metadata as Python OBJECTS: a heap of cells that refer to each other

The containers keep the dictionaries they are handed (by reference), so several metadata slots of one hypergraph
can hold one and the same dictionary / list object, and two dictionaries can contain the same nested list.  The
value-based tables of `Model/C07.lean` cannot say this.  Here a metadata object graph is a `Heap`: cell `i` is an
atom (or any unshared subtree, by value), a list of addresses or a dictionary of addresses; addresses point to
OLDER cells (JSON-representable metadata have no cycles; a dangling / forward address reads as `null` on both sides
of every statement below, the driver and the harness only build closed heaps).

* `values h`     the JSON value every cell denotes (what the getters show, what `==` compares)
* `serCells h`   what `serialize` of hashing.py returns when it walks the references (children first)
* `guardSer`     the seeded variant (C07-c3): every container entered is recorded by its address in `visited`
                 and never released, a container met again becomes the placeholder - NOT a function of the values
-/
namespace C07

inductive Cell where
  /-- an atom, or a whole subtree that no other slot refers to -/
  | atom (t : JTree)
  /-- a Python list whose items are the objects at these addresses -/
  | arr (items : List Nat)
  /-- a Python dict: field ↦ address of the object it holds -/
  | obj (fields : List (String × Nat))

abbrev Heap := List Cell

/-- the entry for address `r` of a table computed so far -/
def look (tab : List JTree) (r : Nat) : JTree := (tab[r]?).getD .null

/-- the value a cell denotes, given the values of the older cells -/
def cellVal (vals : List JTree) : Cell → JTree
  | .atom t => t
  | .arr is => .arr (is.map (look vals))
  | .obj fs => .obj (fs.map (fun p => (p.1, look vals p.2)))

def valuesFrom (acc : List JTree) : Heap → List JTree
  | [] => acc
  | c :: cs => valuesFrom (acc ++ [cellVal acc c]) cs

/-- the JSON value of every cell, oldest first -/
def values (h : Heap) : List JTree := valuesFrom [] h

/-- `serialize(obj)` for the object in a cell, given the results for the older cells: a dict is rebuilt with its keys
sorted and the serialized children, a list element-wise, an unshared subtree by `ser` -/
def cellSer (sers : List JTree) : Cell → JTree
  | .atom t => ser t
  | .arr is => .arr (is.map (look sers))
  | .obj fs => .obj (sortBy fieldLe (fs.map (fun p => (p.1, look sers p.2))))

def serFrom (acc : List JTree) : Heap → List JTree
  | [] => acc
  | c :: cs => serFrom (acc ++ [cellSer acc c]) cs

/-- what `serialize` returns for every cell -/
def serCells (h : Heap) : List JTree := serFrom [] h

/-- every address inside cell `i` is below `i` -/
def closedFrom (n : Nat) : Heap → Bool
  | [] => true
  | .atom _ :: cs => closedFrom (n + 1) cs
  | .arr is :: cs => is.all (· < n) && closedFrom (n + 1) cs
  | .obj fs :: cs => fs.all (·.2 < n) && closedFrom (n + 1) cs

def Heap.closed (h : Heap) : Bool := closedFrom 0 h

/-! ## the seeded guard (C07-c3), for the witness in `Props/C07.lean` -/

def placeholder : JTree := .str "recursion"

/-- `serialize` with a `visited` set of addresses that is never released: (result, visited afterwards).
Dict fields are visited in sorted key order, as `for k in sorted(obj)` does. -/
def guardSer (h : Heap) : Nat → List Nat → Nat → JTree × List Nat
  | 0, vis, _ => (.null, vis)
  | fuel + 1, vis, r =>
    match h[r]? with
    | none => (.null, vis)
    | some (.atom t) => (ser t, vis)
    | some (.arr is) =>
      if vis.contains r then (placeholder, vis) else
      let res := is.foldl (fun (acc : List JTree × List Nat) i =>
        let o := guardSer h fuel acc.2 i
        (acc.1 ++ [o.1], o.2)) ([], r :: vis)
      (.arr res.1, res.2)
    | some (.obj fs) =>
      if vis.contains r then (placeholder, vis) else
      let res := (sortBy (fun (a b : String × Nat) => KeyOrd.le a.1 b.1) fs).foldl
        (fun (acc : List (String × JTree) × List Nat) p =>
          let o := guardSer h fuel acc.2 p.2
          (acc.1 ++ [(p.1, o.1)], o.2)) ([], r :: vis)
      (.obj res.1, res.2)

/-- the guarded serialization of a list of slots (the metadata entries of the exposed records, in exposure order) -/
def guardSlots (h : Heap) (slots : List Nat) : List JTree :=
  (slots.foldl (fun (acc : List JTree × List Nat) r =>
    let o := guardSer h (h.length + 1) acc.2 r
    (acc.1 ++ [o.1], o.2)) ([], [])).1

end C07
