import Hgxv.Model.C15
/-! # C15 — construction, initial draws and the guarded run of `fit` (core Lean only)

Extension round: the parts of `HyMMSBM` that `Model/C15.lean` takes as parameters or leaves to hypotheses.

* `HyMMSBM.__init__` / `_check_and_infer_param_consistency`      ↔ `Ctor`, `CtorErr`, `Hyper`, `inferAssortative`, `inferK`, `construct`
* the prior arguments (`float` or array; `isinstance(.., float) and .. == 0.0`) ↔ `Prior`, `Prior.mat`, `Prior.isZeroFloat`
* `_init_w` (all four branches: uniform / exponential draw, `np.triu(w, 0) + np.triu(w, 1).T`,
  `np.diag(np.diag(w))`, `np.diag(rng.exponential(prior_mean))`, `prior_mean = 1 / prior`) ↔ `symUpper`, `diagOnly`, `initWMat`, `initW`, `initWOk`
* `_init_u` (three branches)                                     ↔ `initUMat`, `initU`, `initUOk`
* the loop of `fit` as the code runs it INCLUDING `multiplier = hye_weights / poisson_params` failing
  (division by a vanishing Poisson parameter: `inf` / `nan` in binary64, `ZeroDivisionError` in exact arithmetic)
                                                                 ↔ `emStep?`, `emLoop?`
* the whole path `HyMMSBM(K, u, w, assortative, max_hye_size, u_prior, w_prior, seed).fit(H, n_iter, tolerance,
  check_convergence_every)` from the RAW draws of the generator ↔ `Seed`, `Outcome`, `fitSeed`
* `HyMMSBM.log_likelihood` (its two rational ingredients; the logarithm is taken in `Proofs/C15Init.lean`) ↔ `logLikParts`

The raw draws are what the generator hands out before the code touches them: `rng.random(shape)` (uniform) resp. the
standard exponential variates `g` of `rng.exponential(scale) = scale * g` (NumPy's definition; trusted). -/
namespace C15

/-! ## priors as the code sees them -/

/-- `u_prior` / `w_prior`: a Python float or an array -/
inductive Prior where
  | scalar (q : Rat)
  | array (r : List (List Rat))

/-- the rate matrix the updates add to their denominators (a float broadcasts) -/
def Prior.mat : Prior → Mat
  | .scalar q => fun _ _ => q
  | .array r => matOf r

/-- `isinstance(prior, float) and prior == 0.0` -/
def Prior.isZeroFloat : Prior → Bool
  | .scalar q => q == 0
  | .array _ => false

/-! ## `__init__`: `_check_and_infer_param_consistency` -/

/-- the arguments `K`, `u`, `w`, `assortative` of the constructor -/
structure Ctor where
  K : Option Nat
  u : Option (List (List Rat))
  w : Option (List (List Rat))
  assortative : Option Bool

/-- the `ValueError`s of `_check_and_infer_param_consistency`, in the order of the code -/
inductive CtorErr where
  | noAssortative | noK | wNegative | wNotSymmetric | wNotDiagonal | uNegative | kMismatch
  deriving DecidableEq, Repr

/-- `K` and `assortative` of the constructed object (given or inferred) -/
structure Hyper where
  K : Nat
  assortative : Bool
  deriving DecidableEq, Repr

/-- `np.any(x < 0)` -/
def anyNeg (x : List (List Rat)) : Bool := x.any fun row => row.any fun v => decide (v < 0)

/-- `np.all(np.triu(w, 1) == 0)` for a `K × K` array -/
def upperZero (K : Nat) (w : Mat) : Bool := allTo K fun a => allTo K fun b => decide (a < b → w a b = 0)

/-- `np.all(w == w.T)` for a `K × K` array -/
def symmetricB (K : Nat) (w : Mat) : Bool := allTo K fun a => allTo K fun b => decide (w a b = w b a)

/-- `u.shape[1]` -/
def ncols (u : List (List Rat)) : Nat := (u.headD []).length

/-- `if self.assortative is None: ... np.all(np.triu(self.w, 1) == 0)` -/
def inferAssortative (c : Ctor) : Option Bool :=
  match c.assortative with
  | some a => some a
  | none => c.w.map fun w => upperZero w.length (matOf w)

/-- `if self.K is None: ...` (`w.shape[0]` wins over `u.shape[1]`) -/
def inferK (c : Ctor) : Option Nat :=
  match c.K with
  | some K => some K
  | none =>
    match c.w with
    | some w => some w.length
    | none => c.u.map ncols

/-- the checks on `w` (only made when `w` is supplied) -/
def checkW (ass : Bool) (w : List (List Rat)) : Option CtorErr :=
  if anyNeg w then some .wNegative
  else if !symmetricB w.length (matOf w) then some .wNotSymmetric
  else if ass && !upperZero w.length (matOf w) then some .wNotDiagonal
  else none

/-- `_check_and_infer_param_consistency`: accepted (with the inferred `K`, `assortative`) or the first error -/
def construct (c : Ctor) : Except CtorErr Hyper :=
  match inferAssortative c with
  | none => .error .noAssortative
  | some ass =>
    match inferK c with
    | none => .error .noK
    | some K =>
      match c.w.bind (checkW ass) with
      | some e => .error e
      | none =>
        if (c.u.map anyNeg).getD false then .error .uNegative
        else
          match c.u, c.w with
          | some u, some w => if ncols u = w.length then .ok { K := K, assortative := ass } else .error .kMismatch
          | _, _ => .ok { K := K, assortative := ass }

/-! ## `_init_w`, `_init_u` -/

/-- `np.triu(x, 0) + np.triu(x, 1).T` -/
def symUpper (x : Mat) : Mat := fun a b => if a ≤ b then x a b else x b a

/-- `np.diag(np.diag(x))` -/
def diagOnly (x : Mat) : Mat := fun a b => if a = b then x a b else 0

/-- `_init_w` on the raw draws `g`: `rng.random((K, K))` when the prior is the float `0.0`; else the standard
exponential variates behind `rng.exponential(prior_mean)` - a `K`-vector (row 0 of `g`) in the assortative branch
(`prior_mean = np.diag(np.eye(K) / w_prior)` resp. `1 / np.diag(w_prior)`), a `K × K` array otherwise
(`prior_mean = np.ones((K, K)) / w_prior` resp. `1 / w_prior`) -/
def initWMat (ass : Bool) (prior : Prior) (g : Mat) : Mat :=
  if prior.isZeroFloat then
    (if ass then diagOnly (symUpper g) else symUpper g)
  else if ass then
    fun a b => if a = b then (1 / prior.mat a a) * g 0 a else 0
  else
    symUpper fun a b => (1 / prior.mat a b) * g a b

def initW (K : Nat) (ass : Bool) (prior : Prior) (g : List (List Rat)) : List (List Rat) :=
  toRows K K (initWMat ass prior (matOf g))

/-- the exponential branches divide by the prior and hand `1 / prior` to the generator as a scale: every rate that is
read must be positive (`1 / 0 = inf`; a negative scale makes `rng.exponential` raise) -/
def initWOk (K : Nat) (ass : Bool) (prior : Prior) : Bool :=
  prior.isZeroFloat ||
    (if ass then allTo K fun a => decide (0 < prior.mat a a)
     else allTo K fun a => allTo K fun b => decide (0 < prior.mat a b))

/-- `_init_u(N)`: `rng.random((N, K))` when the prior is the float `0.0`, else `rng.exponential(1 / u_prior)` -/
def initUMat (prior : Prior) (g : Mat) : Mat :=
  if prior.isZeroFloat then g else fun i a => (1 / prior.mat i a) * g i a

def initU (N K : Nat) (prior : Prior) (g : List (List Rat)) : List (List Rat) :=
  toRows N K (initUMat prior (matOf g))

def initUOk (N K : Nat) (prior : Prior) : Bool :=
  prior.isZeroFloat || allTo N fun i => allTo K fun a => decide (0 < prior.mat i a)

/-! ## the loop with its failing division -/

/-- one pass of the loop body as the code runs it: each update that is made first forms
`multiplier = hye_weights / poisson_params`; `none` = a Poisson parameter of the data is 0 there -/
def emStep? (d : Data) (fixedU fixedW : Bool) (ru rw : Mat) (p : Params) : Option Params :=
  match (if fixedW then some p.w else (wUpdate? d (matOf p.u) (matOf p.w) rw).map (toRows d.K d.K)) with
  | none => none
  | some w' =>
    match (if fixedU then some p.u else (uUpdate? d (matOf p.u) (matOf w') ru).map (toRows d.N d.K)) with
    | none => none
    | some u' => some { u := u', w := w' }

/-- `n` passes, `none` as soon as one division fails -/
def emLoop? (d : Data) (fixedU fixedW : Bool) (ru rw : Mat) : Nat → Params → Option Params
  | 0, p => some p
  | n + 1, p => (emLoop? d fixedU fixedW ru rw n p).bind (emStep? d fixedU fixedW ru rw)

/-! ## the whole path from the constructor arguments and the raw draws -/

/-- everything `HyMMSBM(..).fit(..)` depends on: constructor arguments, the raw draws the seeded generator hands out
(`gw` first: `_init_w` is called before `_init_u`), the value of `np.sqrt(C())`, the arguments of `fit` -/
structure Seed where
  ctor : Ctor
  Dsup : Option Nat
  uPrior : Prior
  wPrior : Prior
  gw : List (List Rat)
  gu : List (List Rat)
  sqrtC : Rat
  stop : Option Stop
  n : Nat

inductive Outcome where
  /-- the constructor raises -/
  | ctorErr (e : CtorErr)
  /-- an initial draw needs `1 / prior` of a rate that is not positive -/
  | badPrior
  /-- `fit` raises (`max_hye_size` too small; `check_convergence_every = 0` with a tolerance) -/
  | rej
  /-- a Poisson parameter of the data vanished before an update: the parameters are not finite -/
  | nonfinite
  /-- `fit` returns: `max_hye_size`, the parameters, `training_iter`, `tolerance_reached` -/
  | ok (D : Nat) (p : Params) (it : Nat) (reached : Bool)

/-- the initial `w` of `fit`: the supplied one, else `_init_w` (`none` = bad prior) -/
def seedW0 (s : Seed) (h : Hyper) : Option (List (List Rat)) :=
  match s.ctor.w with
  | some _ => some []
  | none => if initWOk h.K h.assortative s.wPrior then some (initW h.K h.assortative s.wPrior s.gw) else none

/-- the initial `u` of `fit`: the supplied one, else `_init_u(num_nodes)` -/
def seedU0 (s : Seed) (h : Hyper) (N : Nat) : Option (List (List Rat)) :=
  match s.ctor.u with
  | some _ => some []
  | none => if initUOk N h.K s.uPrior then some (initU N h.K s.uPrior s.gu) else none

/-- `HyMMSBM(**ctor, max_hye_size=Dsup, u_prior, w_prior, seed).fit(H, n_iter=n, tolerance, check_convergence_every)`
on the hypergraph with `N` nodes, hyperedges `edges`, weights `A` -/
def fitSeed (s : Seed) (N : Nat) (edges : List (List Nat)) (A : List Rat) : Outcome :=
  match construct s.ctor with
  | .error e => .ctorErr e
  | .ok h =>
    match seedW0 s h with
    | none => .badPrior
    | some w0 =>
      match seedU0 s h N with
      | none => .badPrior
      | some u0 =>
        let d := dataOf N h.K edges A
        let ru := s.uPrior.mat
        let rw := s.wPrior.mat
        match fit d s.ctor.u s.ctor.w s.Dsup u0 w0 ru rw s.sqrtC s.stop s.n with
        | none => .rej
        | some (D, p) =>
          let r := fitRun d s.ctor.u s.ctor.w u0 w0 ru rw s.stop s.n
          if (emLoop? d s.ctor.u.isSome s.ctor.w.isSome ru rw (r.it + 1)
                { u := s.ctor.u.getD u0, w := s.ctor.w.getD w0 }).isSome
          then .ok D p r.it r.reached else .nonfinite

/-! ## `log_likelihood` -/

/-- the two ingredients of `HyMMSBM.log_likelihood(H)`: `bf_and_sum(u, w)` and the Poisson parameters of the
hyperedges of `H`; the method returns `- first + Σ_e A_e log(second_e)` -/
def logLikParts (d : Data) (u w : Mat) : Rat × List Rat :=
  (bfSum d.N d.K u w, (List.range d.E).map fun e => poisson d.N d.K u w (d.edge e))

end C15
