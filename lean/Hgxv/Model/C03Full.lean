import Hgxv.Model.C03
/-! # C03 - the WHOLE object: the tables of `Store` plus `_incidences_metadata`, and the ways in which the library
derives one `TemporalHypergraph` from another (strengthening round d)

`Store` (Model/C03.lean) holds the tables that the property's map speaks about.  The class has one more table,
`_incidences_metadata : ((time, canonical nodes), node) ↦ metadata`, written by `set_incidence_metadata`, read by
`get_incidence_metadata` / `get_all_incidences_metadata`, and touched by NO other method: `remove_edge`, `remove_node`
and `clear()` leave it alone (entries of records that were removed stay - this is what the code does and what is
modelled).  An `Obj` is a `Store` with that table.

Routes from one object to another:
* `Route.copy`   - `copy()` (= `copy.deepcopy`), also a `pickle` round trip of the object: every table;
* `Route.tables` - `expose_data_structures()` → `populate_from_dict()` (what `save_hypergraph(binary=True)` /
                   `load_hypergraph` do): every table EXCEPT `_incidences_metadata`, which starts empty.
(The JSON file format rebuilds the object through `add_node` / `add_edge`; it is a history of base calls.)

The seeded change C03-d2 made `copy()` take the second route: a value-based slot copy of `Store` could not tell the
two apart.  `FState` / `fstep` / `frun` is the machine the driver runs now; `baseState` forgets the incidence table and
`FOp.toBase?` the incidence calls (Proofs/C03Full.lean: the projection of a full run is the `run` of Model/C03.lean). -/
namespace C03

/-- key of `_incidences_metadata`: `((time, canonical node tuple), node)` -/
abbrev IncKey := Key × Node

structure Obj where
  base : Store
  /-- `_incidences_metadata` -/
  inc : List (IncKey × Meta) := []
  deriving DecidableEq

/-- `TemporalHypergraph(weighted=w)` -/
def Obj.new (w : Bool) : Obj := { base := Store.new w }

/-- the key `(time, _canon_edge(edge))` if it is a record of the object (`k not in self._edge_list` raises) -/
def recKey (o : Obj) (raw : List Nat) (t : TimeArg) : Option Key :=
  match mkKey raw t with
  | none => none
  | some k => if (AL.get? o.base.edgeList k).isSome then some k else none

/-- `set_incidence_metadata(edge, time, node, metadata)`: the record must be present; the node is not looked at -/
def setInc (o : Obj) (raw : List Nat) (t : TimeArg) (n : Node) (md : Meta) : Obj × Out :=
  match recKey o raw t with
  | none => (o, .rej)
  | some k => ({ o with inc := AL.set o.inc (k, n) md }, .ok)

/-- `get_incidence_metadata(edge, time, node)`: `none` = raises (record absent: ValueError, entry absent: KeyError) -/
def getInc (o : Obj) (raw : List Nat) (t : TimeArg) (n : Node) : Option Meta :=
  (recKey o raw t).bind (fun k => AL.get? o.inc (k, n))

/-- `get_incidence_metadata(edge, time, node)[field] = value` - an edit of the stored dictionary in place -/
def attrInc (o : Obj) (raw : List Nat) (t : TimeArg) (n : Node) (f v : Nat) : Obj × Out :=
  match recKey o raw t with
  | none => (o, .rej)
  | some k =>
    match AL.get? o.inc (k, n) with
    | none => (o, .rej)
    | some md => ({ o with inc := AL.set o.inc (k, n) (AL.set md f v) }, .ok)

/-- a public mutating call on the whole object -/
inductive OOp
  | base (op : SOp)
  | setInc (raw : List Nat) (t : TimeArg) (n : Node) (md : Meta)
  | attrInc (raw : List Nat) (t : TimeArg) (n : Node) (f v : Nat)

/-- every method of `Store` works on its own tables only -/
def Obj.apply (o : Obj) : OOp → Obj × Out
  | .base op => ({ o with base := (applyOp o.base op).1 }, (applyOp o.base op).2)
  | .setInc raw t n md => setInc o raw t n md
  | .attrInc raw t n f v => attrInc o raw t n f v

inductive Route
  | copy
  | tables
  deriving DecidableEq, Repr

def derive (o : Obj) : Route → Obj
  | .copy => o
  | .tables => { base := o.base }

inductive OQuery
  | base (q : Query)
  | inc (raw : List Nat) (t : TimeArg) (n : Node)
  | allInc

inductive OAns
  | base (a : Ans)
  | incs (l : List (IncKey × Meta))
  deriving DecidableEq

def Obj.answer (o : Obj) : OQuery → OAns
  | .base q => .base (C03.answer o.base q)
  | .inc raw t n => .base (optAns (getInc o raw t n) .dict)
  | .allInc => .incs o.inc

abbrev FState := List (Nat × Obj)

inductive FOp
  | new (i : Nat) (w : Bool)
  | on (i : Nat) (o : OOp)
  | derive (r : Route) (i j : Nat)
  | query (i : Nat) (q : OQuery)

inductive FRes
  | out (o : Out)
  | ans (a : OAns)
  deriving DecidableEq

def fstep (st : FState) : FOp → FState × FRes
  | .new i w => (AL.set st i (Obj.new w), .out .ok)
  | .on i op =>
    match AL.get? st i with
    | none => (st, .out .rej)
    | some o => (AL.set st i (o.apply op).1, .out (o.apply op).2)
  | .derive r i j =>
    match AL.get? st i with
    | none => (st, .out .rej)
    | some o => (AL.set st j (derive o r), .out .ok)
  | .query i q =>
    match AL.get? st i with
    | none => (st, .ans (.base .rej))
    | some o => (st, .ans (o.answer q))

def frun (st : FState) (ops : List FOp) : FState := ops.foldl (fun st op => (fstep st op).1) st

/-- forget the incidence tables -/
def baseState (st : FState) : State := st.map (fun p => (p.1, p.2.base))

/-- the call as the machine of Model/C03.lean sees it: incidence calls and queries are not there, both routes are its
slot copy -/
def FOp.toBase? : FOp → Option Op
  | .new i w => some (.new i w)
  | .on i (.base op) => some (.on i op)
  | .on _ _ => none
  | .derive _ i j => some (.copy i j)
  | .query _ _ => none

end C03
