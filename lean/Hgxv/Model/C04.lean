import Hgxv.Model.AList
/-! # C04 - concrete model of `hypergraphx.core.multiplex_hypergraph.MultiplexHypergraph`

Core Lean only (compiled into `driver_c04`).  Models the code AFTER the repairs D14-D18, D41, D42
(branch `wC04`).  Python attribute  ↔  field of `Store`:

| Python                         | model                                                            |
|--------------------------------|------------------------------------------------------------------|
| `_edge_list : (nodes, layer) → id`     | `edgeList : List (Key × Nat)` (insertion ordered, `AL`)  |
| `_reverse_edge_list : id → key`        | `rev      : List (Nat × Key)`                            |
| `_weights`, `_edge_metadata` (by id)   | `weights : List (Nat × Int)`, `emeta : List (Nat × Meta)`|
| `_adj : node → [ids]`                  | `adj : List (Node × List Nat)`                           |
| `_node_metadata`                       | `nmeta : List (Node × Meta)`                             |
| `_next_edge_id`, `_weighted`           | `nextId`, `weighted`                                     |
| `_hypergraph_metadata`                 | `hmeta : HMeta` (token keys, see below)                  |
| `_existing_layers` (a set)             | `layers : List Layer` (duplicate free, order of first use)|

Conventions (DESIGN 1.2): node labels and layer names are `Nat` (rank of the Python label), weights are
`Int` numbers of quanta of 1/4 (Python's default weight `1` is `one = 4`), metadata dicts are association
lists of `Nat` tokens.  Keys of the hypergraph-metadata dict: `hkWeighted = 0` ("weighted"),
`hkType = 1` ("type"), `hkDataset = 2` ("multiplex_metadata"), `hkLayer L = 10 + L` (a layer name used as
key by `set_layer_metadata`), anything `≥ 100` a free field.  Value tokens: `0/1` = `False/True`,
`tokMultiplex = 2`, `tokHypergraph = 3`, others free.

API for later users (C06, C07, C19):
* `Store`, `init w hm`, `Op`, `step : Store → Op → Store × Out`, `run`;
* single operations `addNode`, `addNodes`, `addEdge`, `addEdges`, `removeEdge`, `removeNode`, `setWeight`,
  `setAttrEdge` ... (each mirrors one Python method; `Out.rej` = the call raises and the state is unchanged);
* queries `nodes`, `records`, `getWeight`, `getEdgeMeta`, `incident`, `degree`, `degreeSeq`, `edgesMeta`,
  `layerMeta`, `datasetMeta`, `aggregated : Store → Option HSpec`, `overlap`;
* `HSpec` - abstract plain hypergraph (what C01 proves `Hypergraph` to be) with `HSpec.addNode/addEdge`.
The abstract specification of the multiplex container is `Hgxv/Model/C04Spec.lean`. -/
namespace C04

abbrev Node := Nat
abbrev Layer := Nat
abbrev Edge := List Node
abbrev Key := Edge × Layer
abbrev Meta := List (Nat × Nat)
abbrev HMeta := List (Nat × Nat)

/-- `del d[k]`: drop the entry with key `k` (dict keys are unique; written as a filter so that no
duplicate-freeness hypothesis is needed to reason about it) -/
def del {α β : Type} [DecidableEq α] (l : List (α × β)) (k : α) : List (α × β) :=
  l.filter (fun p => p.1 ≠ k)

/-- Python's weight `1` in quanta of 1/4 -/
def one : Int := 4

def hkWeighted : Nat := 0
def hkType : Nat := 1
def hkDataset : Nat := 2
def hkLayer (l : Layer) : Nat := 10 + l
def tokBool (b : Bool) : Nat := if b then 1 else 0
def tokMultiplex : Nat := 2
def tokHypergraph : Nat := 3

inductive Out | ok | rej deriving DecidableEq, Repr

/-- the `order=` / `size=` arguments of `get_incident_edges`, `degree`, `degree_sequence` -/
inductive Filt
  | all                 -- neither given
  | size (k : Nat)
  | order (k : Nat)
  | both                -- both given: the call raises
  deriving DecidableEq, Repr

structure Store where
  weighted : Bool := false
  edgeList : List (Key × Nat) := []
  rev : List (Nat × Key) := []
  weights : List (Nat × Int) := []
  emeta : List (Nat × Meta) := []
  adj : List (Node × List Nat) := []
  nmeta : List (Node × Meta) := []
  nextId : Nat := 0
  hmeta : HMeta := []
  layers : List Layer := []
  deriving Repr

/-- `MultiplexHypergraph(weighted=w, hypergraph_metadata=hm)`:
`self._hypergraph_metadata = hm or {}` then `.update({"weighted": w, "type": "MultiplexHypergraph"})` -/
def init (w : Bool) (hm : HMeta := []) : Store :=
  { weighted := w, hmeta := AL.set (AL.set hm hkWeighted (tokBool w)) hkType tokMultiplex }

/-! ## canonical form of a hyperedge: `tuple(sorted(edge))` -/
def insertSorted (a : Nat) : List Nat → List Nat
  | [] => [a]
  | b :: bs => if a ≤ b then a :: b :: bs else b :: insertSorted a bs
def canon (l : List Nat) : Edge := l.foldr insertSorted []

/-! ## nodes -/

/-- first half of `add_node`: `if node not in self._adj: self._adj[node] = []; self._node_metadata[node] = {}` -/
def ensureNode (s : Store) (n : Node) : Store :=
  if (AL.get? s.adj n).isSome then s
  else { s with adj := AL.set s.adj n [], nmeta := AL.set s.nmeta n [] }

/-- second half of `add_node`: `if self._node_metadata[node] == {}: self._node_metadata[node] = metadata` -/
def fillNodeMeta (s : Store) (n : Node) (md : Meta) : Store :=
  match AL.get? s.nmeta n with
  | some [] => { s with nmeta := AL.set s.nmeta n md }
  | _ => s

/-- `add_node(node, metadata)`; `metadata=None` is `{}` -/
def addNode (s : Store) (n : Node) (md : Option Meta) : Store :=
  fillNodeMeta (ensureNode s n) n (md.getD [])

/-- `add_nodes(node_list, node_metadata)` (after D42: the dict must cover the whole list, tested first) -/
def addNodes (s : Store) (ns : List Node) (mds : Option (List (Node × Meta))) : Store × Out :=
  match mds with
  | none => (ns.foldl (fun s n => addNode s n none) s, .ok)
  | some d =>
    if ns.all (fun n => (AL.get? d n).isSome) then (ns.foldl (fun s n => addNode s n (AL.get? d n)) s, .ok)
    else (s, .rej)

/-! ## insertion -/

/-- `self._existing_layers.add(layer)` -/
def addLayer (ls : List Layer) (l : Layer) : List Layer := if l ∈ ls then ls else ls ++ [l]

/-- `for node in edge: self.add_node(node)` -/
def touchNodes (s : Store) : List Node → Store
  | [] => s
  | n :: ns => touchNodes (addNode s n none) ns

/-- `for node in edge: self._adj[node].append(e_id)` (only for a new record) -/
def linkNodes (adj : List (Node × List Nat)) (id : Nat) : List Node → List (Node × List Nat)
  | [] => adj
  | n :: ns => linkNodes (AL.set adj n (((AL.get? adj n).getD []) ++ [id])) id ns

/-- `e_id = self._next_edge_id; rev[e_id] = k; edge_list[k] = e_id; next_id += 1; weights[e_id] = weight` and
(later in `add_edge`) `edge_metadata[e_id] = metadata` -/
def allocRecord (s : Store) (k : Key) (w : Int) (md : Meta) : Store :=
  { s with rev := AL.set s.rev s.nextId k, edgeList := AL.set s.edgeList k s.nextId, nextId := s.nextId + 1,
           weights := AL.set s.weights s.nextId w, emeta := AL.set s.emeta s.nextId md }

def linkAll (s : Store) (id : Nat) (ns : List Node) : Store := { s with adj := linkNodes s.adj id ns }

/-- branch `k not in self._edge_list` of `add_edge` -/
def addEdgeNew (s : Store) (k : Key) (w : Int) (md : Meta) : Store :=
  linkAll (touchNodes (allocRecord s k w md) k.1) s.nextId k.1

/-- `if self._weighted: weights[id] += weight` and `edge_metadata[id] = metadata` -/
def bumpRecord (s : Store) (id : Nat) (w : Int) (md : Meta) : Store :=
  { s with weights := if s.weighted then AL.set s.weights id (((AL.get? s.weights id).getD 0) + w) else s.weights,
           emeta := AL.set s.emeta id md }

/-- branch `k in self._edge_list` of `add_edge`: weight added when weighted, metadata replaced, adjacency
untouched (post-D1) -/
def addEdgeOld (s : Store) (k : Key) (id : Nat) (w : Int) (md : Meta) : Store :=
  touchNodes (bumpRecord s id w md) k.1

/-- `add_edge` after the weight test: registry, canonical key, new / old branch -/
def addEdgeCore (s : Store) (raw : List Node) (l : Layer) (w : Int) (md : Meta) : Store :=
  match AL.get? s.edgeList (canon raw, l) with
  | none => addEdgeNew { s with layers := addLayer s.layers l } (canon raw, l) w md
  | some id => addEdgeOld { s with layers := addLayer s.layers l } (canon raw, l) id w md

/-- `add_edge(edge, layer, weight, metadata)`; `weight=None` is 1; an unweighted hypergraph rejects `weight != 1` -/
def addEdge (s : Store) (raw : List Node) (l : Layer) (w : Option Int) (md : Option Meta) : Store × Out :=
  if !s.weighted && w.getD one != one then (s, .rej) else (addEdgeCore s raw l (w.getD one) (md.getD []), .ok)

/-- the loop of `add_edges`: one `add_edge` per position -/
def addEdgesLoop (s : Store) : List (List Node × Layer) → List (Option Int) → List (Option Meta) → Store
  | (raw, l) :: es, w :: ws, md :: mds => addEdgesLoop (addEdge s raw l w md).1 es ws mds
  | _, _, _ => s

/-- `metadata is None or len(metadata) >= len(edge_list)` (surplus entries are ignored, as surplus layers are) -/
def mdsLenOK (mds : Option (List Meta)) (n : Nat) : Bool :=
  match mds with
  | some m => decide (n ≤ m.length)
  | none => true

/-- `add_edges(edge_list, edge_layer, weights, metadata)` after D16 (duplicate test on (edge, layer) pairs as
given) and D42 (all tests first; `weights` given switches the hypergraph to weighted) -/
def addEdges (s : Store) (raws : List (List Node)) (ls : List Layer) (ws : Option (List Int))
    (mds : Option (List Meta)) : Store × Out :=
  let n := raws.length
  if ls.length < n then (s, .rej)
  else if !(mdsLenOK mds n) then (s, .rej)
  else
    let mdl : List (Option Meta) := match mds with | some m => m.map some | none => List.replicate n none
    match ws with
    | some wl =>
      if ¬ (raws.zip ls).Nodup then (s, .rej)
      else if wl.length ≠ n then (s, .rej)
      else (addEdgesLoop { s with weighted := true } (raws.zip ls) (wl.map some) mdl, .ok)
    | none => (addEdgesLoop s (raws.zip ls) (List.replicate n none) mdl, .ok)

/-! ## removal -/

/-- `for node in nodes: if edge_id in self._adj[node]: self._adj[node].remove(edge_id)` -/
def unlinkNodes (adj : List (Node × List Nat)) (id : Nat) : List Node → List (Node × List Nat)
  | [] => adj
  | n :: ns =>
    let adj := match AL.get? adj n with
      | some ids => AL.set adj n (ids.erase id)
      | none => adj
    unlinkNodes adj id ns

/-- body of `remove_edge` for a key known to have id `id` -/
def removeKey (s : Store) (k : Key) (id : Nat) : Store :=
  { s with rev := del s.rev id, weights := del s.weights id, emeta := del s.emeta id,
           adj := unlinkNodes s.adj id k.1, edgeList := del s.edgeList k }

/-- `remove_edge((nodes, layer))` after D15 -/
def removeEdge (s : Store) (raw : List Node) (l : Layer) : Store × Out :=
  match AL.get? s.edgeList (canon raw, l) with
  | none => (s, .rej)
  | some id => (removeKey s (canon raw, l) id, .ok)

/-- one iteration of the `keep_edges=False` loop of `remove_node`.  (`self._reverse_edge_list[edge_id]` for a
dangling id would raise in Python; the invariant `C04_inv` excludes it, the model skips the id.) -/
def dropRecord (s : Store) (id : Nat) : Store :=
  match AL.get? s.rev id with
  | none => s
  | some (e, l) => (removeEdge s e l).1

/-- one iteration of the `keep_edges=True` loop of `remove_node` (after D41: weight and metadata are read
before the record is removed) -/
def shrinkRecord (s : Store) (n : Node) (id : Nat) : Store :=
  match AL.get? s.rev id with
  | none => s
  | some (e, l) =>
    let e' := e.filter (· ≠ n)
    let w := (AL.get? s.weights id).getD one
    let md := (AL.get? s.emeta id).getD []
    let s1 := (removeEdge s e l).1
    if e'.isEmpty then s1 else (addEdge s1 e' l (some w) (some md)).1

/-- `remove_node(node, keep_edges)` -/
def removeNode (s : Store) (n : Node) (keep : Bool) : Store × Out :=
  match AL.get? s.adj n with
  | none => (s, .rej)
  | some ids =>
    let s1 := ids.foldl (fun s id => if keep then shrinkRecord s n id else dropRecord s id) s
    ({ s1 with adj := del s1.adj n, nmeta := del s1.nmeta n }, .ok)

/-! ## weights and metadata -/

/-- `set_weight(edge, layer, weight)` -/
def setWeight (s : Store) (raw : List Node) (l : Layer) (w : Int) : Store × Out :=
  if !s.weighted && w != one then (s, .rej) else
  match AL.get? s.edgeList (canon raw, l) with
  | none => (s, .rej)
  | some id => ({ s with weights := AL.set s.weights id w }, .ok)

def setHMeta (s : Store) (hm : HMeta) : Store := { s with hmeta := hm }
def setAttrH (s : Store) (k v : Nat) : Store := { s with hmeta := AL.set s.hmeta k v }
/-- `set_layer_metadata(layer_name, metadata)` -/
def setLayerMeta (s : Store) (l : Layer) (v : Nat) : Store := setAttrH s (hkLayer l) v
/-- `set_dataset_metadata(metadata)` -/
def setDatasetMeta (s : Store) (v : Nat) : Store := setAttrH s hkDataset v

/-- `set_attr_to_node_metadata(node, field, value)` -/
def setAttrNode (s : Store) (n : Node) (k v : Nat) : Store × Out :=
  match AL.get? s.nmeta n with
  | none => (s, .rej)
  | some md => ({ s with nmeta := AL.set s.nmeta n (AL.set md k v) }, .ok)

/-- `remove_attr_from_node_metadata(node, field)`: `del` of a missing field raises -/
def delAttrNode (s : Store) (n : Node) (k : Nat) : Store × Out :=
  match AL.get? s.nmeta n with
  | none => (s, .rej)
  | some md => if (AL.get? md k).isSome then ({ s with nmeta := AL.set s.nmeta n (del md k) }, .ok) else (s, .rej)

/-- `set_attr_to_edge_metadata(edge, layer, field, value)` after D14 -/
def setAttrEdge (s : Store) (raw : List Node) (l : Layer) (k v : Nat) : Store × Out :=
  match AL.get? s.edgeList (canon raw, l) with
  | none => (s, .rej)
  | some id =>
    match AL.get? s.emeta id with
    | none => (s, .rej)
    | some md => ({ s with emeta := AL.set s.emeta id (AL.set md k v) }, .ok)

/-- `remove_attr_from_edge_metadata(edge, layer, field)` after D14 -/
def delAttrEdge (s : Store) (raw : List Node) (l : Layer) (k : Nat) : Store × Out :=
  match AL.get? s.edgeList (canon raw, l) with
  | none => (s, .rej)
  | some id =>
    match AL.get? s.emeta id with
    | none => (s, .rej)
    | some md => if (AL.get? md k).isSome then ({ s with emeta := AL.set s.emeta id (del md k) }, .ok) else (s, .rej)

/-! ## operations and histories -/

inductive Op
  | addNode (n : Node) (md : Option Meta)
  | addNodes (ns : List Node) (mds : Option (List (Node × Meta)))
  | addEdge (raw : List Node) (l : Layer) (w : Option Int) (md : Option Meta)
  | addEdges (raws : List (List Node)) (ls : List Layer) (ws : Option (List Int)) (mds : Option (List Meta))
  | removeEdge (raw : List Node) (l : Layer)
  | removeNode (n : Node) (keep : Bool)
  | setWeight (raw : List Node) (l : Layer) (w : Int)
  | setHMeta (hm : HMeta)
  | setAttrH (k v : Nat)
  | setLayerMeta (l : Layer) (v : Nat)
  | setDatasetMeta (v : Nat)
  | setAttrNode (n : Node) (k v : Nat)
  | delAttrNode (n : Node) (k : Nat)
  | setAttrEdge (raw : List Node) (l : Layer) (k v : Nat)
  | delAttrEdge (raw : List Node) (l : Layer) (k : Nat)
  deriving Repr

def step (s : Store) : Op → Store × Out
  | .addNode n md => (addNode s n md, .ok)
  | .addNodes ns mds => addNodes s ns mds
  | .addEdge raw l w md => addEdge s raw l w md
  | .addEdges raws ls ws mds => addEdges s raws ls ws mds
  | .removeEdge raw l => removeEdge s raw l
  | .removeNode n keep => removeNode s n keep
  | .setWeight raw l w => setWeight s raw l w
  | .setHMeta hm => (setHMeta s hm, .ok)
  | .setAttrH k v => (setAttrH s k v, .ok)
  | .setLayerMeta l v => (setLayerMeta s l v, .ok)
  | .setDatasetMeta v => (setDatasetMeta s v, .ok)
  | .setAttrNode n k v => setAttrNode s n k v
  | .delAttrNode n k => delAttrNode s n k
  | .setAttrEdge raw l k v => setAttrEdge s raw l k v
  | .delAttrEdge raw l k => delAttrEdge s raw l k

def run (s : Store) (ops : List Op) : Store := ops.foldl (fun s op => (step s op).1) s

/-! ## queries -/

/-- `get_nodes()` -/
def nodes (s : Store) : List Node := AL.keys s.nmeta
/-- `get_edges()` -/
def records (s : Store) : List Key := AL.keys s.edgeList
/-- `get_weight(edge, layer)`; `none` = raises -/
def getWeight (s : Store) (raw : List Node) (l : Layer) : Option Int :=
  match AL.get? s.edgeList (canon raw, l) with
  | none => none
  | some id => AL.get? s.weights id
/-- `get_edge_metadata(edge, layer)` -/
def getEdgeMeta (s : Store) (raw : List Node) (l : Layer) : Option Meta :=
  match AL.get? s.edgeList (canon raw, l) with
  | none => none
  | some id => AL.get? s.emeta id
/-- `get_edges(metadata=True)`: `{rev[id]: md for id in _edge_metadata}` -/
def edgesMeta (s : Store) : List (Key × Meta) :=
  s.emeta.filterMap (fun (p : Nat × Meta) => (AL.get? s.rev p.1).map (fun k => (k, p.2)))

def sizeOK (f : Filt) (e : Edge) : Bool :=
  match f with
  | .all => true
  | .size k => e.length == k
  | .order k => e.length == k + 1
  | .both => false

/-- `get_incident_edges(node, order, size)` after D18; `none` = raises -/
def incident (s : Store) (n : Node) (f : Filt) : Option (List Key) :=
  match AL.get? s.adj n with
  | none => none
  | some ids => if f = .both then none else some ((ids.filterMap (AL.get? s.rev)).filter (fun k => sizeOK f k.1))

/-- `degree(node, order, size)` -/
def degree (s : Store) (n : Node) (f : Filt) : Option Nat := (incident s n f).map List.length

/-- `degree_sequence(order, size)` -/
def degreeSeq (s : Store) (f : Filt) : Option (List (Node × Nat)) :=
  if f = .both then none else (nodes s).mapM (fun n => (degree s n f).map (fun d => (n, d)))

/-- `get_layer_metadata(layer_name)` / `get_dataset_metadata()`: plain dict lookups, raise when absent -/
def layerMeta (s : Store) (l : Layer) : Option Nat := AL.get? s.hmeta (hkLayer l)
def datasetMeta (s : Store) : Option Nat := AL.get? s.hmeta hkDataset

/-! ## aggregation -/

/-- abstract plain hypergraph: what the public API of `Hypergraph` shows (property C01) -/
structure HSpec where
  weighted : Bool
  nodes : List (Node × Meta) := []
  edges : List (Edge × (Int × Meta)) := []
  hmeta : HMeta := []
  deriving Repr

/-- `Hypergraph.add_node(node, metadata)` -/
def HSpec.addNode (h : HSpec) (n : Node) (md : Meta) : HSpec :=
  match AL.get? h.nodes n with
  | none => { h with nodes := AL.set h.nodes n md }
  | some [] => { h with nodes := AL.set h.nodes n md }
  | some _ => h

/-- `Hypergraph.add_edge(edge, weight, metadata)` with an explicit weight; `none` = raises -/
def HSpec.addEdge (h : HSpec) (e : Edge) (w : Int) (md : Meta) : Option HSpec :=
  if !h.weighted && w != one then none else
  match AL.get? h.edges e with
  | none =>
    let h1 : HSpec := { h with edges := AL.set h.edges e (if h.weighted then w else one, md) }
    some (e.foldl (fun h n => h.addNode n []) h1)
  | some (w0, _) => some { h with edges := AL.set h.edges e (if h.weighted then w0 + w else w0, md) }

/-- the second loop of `aggregated_hypergraph`: `for (edge, layer) in get_edges(): h.add_edge(edge,
get_weight(edge, layer), get_edge_metadata(edge, layer))` -/
def aggEdges (s : Store) : List Key → HSpec → Option HSpec
  | [], h => some h
  | (e, l) :: ks, h =>
    match getWeight s e l, getEdgeMeta s e l with
    | some w, some md =>
      match h.addEdge e w md with
      | some h' => aggEdges s ks h'
      | none => none
    | _, _ => none

/-- `aggregated_hypergraph()` after D17 (the metadata dict is copied): a `Hypergraph` with the same weighted
flag, the multiplex metadata overwritten by `weighted`/`type`, all nodes with their metadata, then all records.
`none` = the call raises. -/
def aggregated (s : Store) : Option HSpec :=
  let h0 : HSpec := { weighted := s.weighted,
                      hmeta := AL.set (AL.set s.hmeta hkWeighted (tokBool s.weighted)) hkType tokHypergraph }
  let h1 := s.nmeta.foldl (fun h (p : Node × Meta) => h.addNode p.1 p.2) h0
  aggEdges s (records s) h1

/-- `measures.multiplex.edge_overlap(h, edge)`: sum of `get_weight(edge, layer)` over the registered layers
that hold the hyperedge -/
def overlap (s : Store) (raw : List Node) : Int :=
  (s.layers.map (fun l => (getWeight s raw l).getD 0)).sum

end C04
