import Hgxv.Model.AList
/-! Model of the centrality glue of `hypergraphx` (core Lean only):

* `hypergraphx/representations/projections.py`   `line_graph` (unweighted, `distance="intersection"`),
  `bipartite_projection` - vertex / id-table structure;
* `hypergraphx/measures/s_centralities.py`       all eight functions, the networkx routine being the
  PARAMETER `cent : Graph V → V → Rat` (its contract: a dict with one item per vertex of the graph,
  `centDict`);
* `TemporalHypergraph.subhypergraph()`           the snapshots the averaged versions iterate over;
* `hypergraphx/measures/eigen_centralities.py`   `apply`, the matrix `W` of `CEC_centrality`, one step of
  `power_method` and of the HEC iteration, over `Rat`; the irrational ingredients (`‖·‖₂`, the `1/m`-th
  root) are parameters.

Labels are an arbitrary type `α` with decidable equality; `srt` is `tuple(sorted(·))`. -/
namespace C20

/-- a `networkx.Graph`: vertices in insertion order, edge list -/
structure Graph (V : Type) where
  verts : List V
  edges : List (V × V)

/-- contract of `nx.betweenness_centrality` / `nx.closeness_centrality`: a dict with exactly one item per
vertex of the graph, in vertex order -/
def centDict {V : Type} (cent : Graph V → V → Rat) (g : Graph V) : List (V × Rat) :=
  g.verts.map fun v => (v, cent g v)

/-- `{table[k]: v for k, v in items}` before the dict is formed; `none` = `KeyError` -/
def lookupItems {K κ : Type} [DecidableEq K] (tab : List (K × κ)) (items : List (K × Rat)) :
    Option (List (κ × Rat)) :=
  items.mapM fun p => (AL.get? tab p.1).map fun o => (o, p.2)

/-- a dict comprehension: later items overwrite earlier ones with the same key -/
def dictOf {κ : Type} [DecidableEq κ] (items : List (κ × Rat)) : List (κ × Rat) :=
  items.foldl (fun d p => AL.set d p.1 p.2) []

section Static
variable {α : Type} [DecidableEq α]

/-- what the routines read of a `Hypergraph`: `get_nodes()` and `get_edges()` (the stored keys), in order -/
structure HG (α : Type) where
  nodes : List α
  edges : List (List α)

/-- `intersection(set(a), set(b))` for duplicate-free `a` -/
def inter (a b : List α) : Nat := (a.filter fun x => decide (x ∈ b)).length

/-- two hyperedges become adjacent in the line graph: they are met through a common node
(`adj[n]`) and `w >= s` -/
def linked (s : Nat) (a b : List α) : Bool := decide (1 ≤ inter a b ∧ s ≤ inter a b)

/-- `id_to_edge`: `cont ↦ tuple(sorted(e))` -/
def idTable (srt : List α → List α) (es : List (List α)) : List (Nat × List α) :=
  (List.range es.length).zip (es.map srt)

/-- the edges `(i, j)`, `i < j`, of the line graph, from the id table -/
def lineEdges (s : Nat) : List (Nat × List α) → List (Nat × Nat)
  | [] => []
  | p :: t => ((t.filter fun q => linked s p.2 q.2).map fun q => (p.1, q.1)) ++ lineEdges s t

/-- `line_graph(h, s=s)[0]`: vertices `range(len(h))` -/
def lineGraph (srt : List α → List α) (H : HG α) (s : Nat) : Graph Nat :=
  { verts := List.range H.edges.length, edges := lineEdges s (idTable srt H.edges) }

/-- `s_betweenness` / `s_closeness` before the dict is formed -/
def sEdgesItems (cent : Graph Nat → Nat → Rat) (srt : List α → List α) (H : HG α) (s : Nat) :
    Option (List (List α × Rat)) :=
  lookupItems (idTable srt H.edges) (centDict cent (lineGraph srt H s))

/-- `s_betweenness(H, s)` / `s_closeness(H, s)` with `cent` the networkx routine -/
def sEdges (cent : Graph Nat → Nat → Rat) (srt : List α → List α) (H : HG α) (s : Nat) :
    Option (List (List α × Rat)) :=
  (sEdgesItems cent srt H s).map dictOf

/-! ### bipartite projection -/

def nameN (i : Nat) : String := "N" ++ toString i
def nameE (j : Nat) : String := "E" ++ toString j
/-- the test `"E" not in k` on a vertex name -/
def isNodeName (k : String) : Bool := !(k.toList.contains 'E')

/-- values of `id_to_obj`: a node or a hyperedge (node labels are assumed not to be tuples that equal a
hyperedge, so the two kinds never collide as dict keys) -/
abbrev Obj (α : Type) := Sum α (List α)

/-- `id_to_obj` of `bipartite_projection` -/
def bipTable (srt : List α → List α) (H : HG α) : List (String × Obj α) :=
  (((List.range H.nodes.length).zip H.nodes).map fun p => (nameN p.1, Sum.inl p.2)) ++
  (((List.range H.edges.length).zip H.edges).map fun p => (nameE p.1, Sum.inr (srt p.2)))

/-- `g.add_edge(obj_to_id[edge], obj_to_id[node])`; `obj_to_id[node]` is the position of the node in
`get_nodes()` (every member of a hyperedge is a node of the hypergraph) -/
def bipEdges (srt : List α → List α) (H : HG α) : List (String × String) :=
  ((List.range H.edges.length).zip H.edges).flatMap fun p =>
    (srt p.2).map fun x => (nameE p.1, nameN (H.nodes.idxOf x))

def bipGraph (srt : List α → List α) (H : HG α) : Graph String :=
  { verts := (List.range H.nodes.length).map nameN ++ (List.range H.edges.length).map nameE,
    edges := bipEdges srt H }

/-- `s_betweenness_nodes` / `s_closeness_nodes` before the dict is formed -/
def sNodesItems (cent : Graph String → String → Rat) (srt : List α → List α) (H : HG α) :
    Option (List (Obj α × Rat)) :=
  lookupItems (bipTable srt H) ((centDict cent (bipGraph srt H)).filter fun p => isNodeName p.1)

def sNodes (cent : Graph String → String → Rat) (srt : List α → List α) (H : HG α) :
    Option (List (Obj α × Rat)) :=
  (sNodesItems cent srt H).map dictOf

/-! ### temporal hypergraphs -/

/-- `get_edges()` of a `TemporalHypergraph`: `(time, key)` in order -/
structure THG (α : Type) where
  edges : List (Nat × List α)

def addNew {β : Type} [DecidableEq β] (l : List β) (x : β) : List β := if x ∈ l then l else l ++ [x]

/-- nodes of `Hypergraph().add_edge(e)...`: first appearance order -/
def nodesOf (es : List (List α)) : List α := es.flatten.foldl addNew []

/-- keys of `TemporalHypergraph.subhypergraph()`: the times in order of first appearance -/
def times (T : THG α) : List Nat := (T.edges.map (·.1)).foldl addNew []

def snapshot (srt : List α → List α) (T : THG α) (t : Nat) : HG α :=
  let es := (T.edges.filter fun p => p.1 = t).map fun p => srt p.2
  { nodes := nodesOf es, edges := es }

def snapshots (srt : List α → List α) (T : THG α) : List (HG α) := (times T).map (snapshot srt T)

/-- `for k, v in items: if k not in res: res[k] = 0; res[k] += v` -/
def accumulate {κ : Type} [DecidableEq κ] (res items : List (κ × Rat)) : List (κ × Rat) :=
  items.foldl (fun r p => AL.set r p.1 ((AL.get? r p.1).getD 0 + p.2)) res

/-- the averaged versions: accumulate over the snapshots, then `{k: v / T}` (`none` = an exception in a snapshot) -/
def averaged {κ : Type} [DecidableEq κ] (per : HG α → Option (List (κ × Rat))) (snaps : List (HG α)) :
    Option (List (κ × Rat)) :=
  (snaps.mapM per).map fun lists =>
    (lists.foldl accumulate []).map fun p => (p.1, p.2 / (snaps.length : Rat))

def sEdgesAveraged (cent : Graph Nat → Nat → Rat) (srt : List α → List α) (T : THG α) (s : Nat) :=
  averaged (fun H => sEdgesItems cent srt H s) (snapshots srt T)

/-- `s_betweenness_nodes_averaged` / `s_closenness_nodes_averaged` after the repair of D33 (the only filter
is the one on the vertex name inside `sNodesItems`) -/
def sNodesAveraged (cent : Graph String → String → Rat) (srt : List α → List α) (T : THG α) :=
  averaged (sNodesItems cent srt) (snapshots srt T)

/-- relabelling of a hypergraph: nodes through `f`, keys through `g` (`g e = tuple(sorted(map f e))`) -/
def HG.relabel {β : Type} (f : α → β) (g : List α → List β) (H : HG α) : HG β :=
  { nodes := H.nodes.map f, edges := H.edges.map g }

end Static

/-! ### eigenvector centralities (nodes `0..n-1`, vectors as lists of length `n`) -/

def getR (x : List Rat) (i : Nat) : Rat := x.getD i 0
/-- `np.prod(v[list(e)])` -/
def prodAt (x : List Rat) (l : List Nat) : Rat := (l.map (getR x)).foldl (· * ·) 1
/-- `edge[shift+1:] + edge[:shift]` -/
def rot (e : List Nat) (k : Nat) : List Nat := e.drop (k + 1) ++ e.take k
/-- `v[i] += d` -/
def addAt (v : List Rat) (i : Nat) (d : Rat) : List Rat := v.modify i (· + d)

def applyEdge (x : List Rat) (acc : List Rat) (e : List Nat) : List Rat :=
  (List.range e.length).foldl (fun a k => addAt a (e.getD k 0) (prodAt x (rot e k))) acc

/-- `apply(HG, x, g)` with `g = lambda v, e: np.prod(v[list(e)])` -/
def apply (n : Nat) (edges : List (List Nat)) (x : List Rat) : List Rat :=
  edges.foldl (applyEdge x) (List.replicate n 0)

/-- the position pairs `i < j` of the double loop of `CEC_centrality`, as `(edge[i], edge[j])` -/
def pairsOf : List Nat → List (Nat × Nat)
  | [] => []
  | a :: t => t.map (fun b => (a, b)) ++ pairsOf t

/-- `W[a, b] += 1` -/
def bump (W : List (List Rat)) (a b : Nat) : List (List Rat) := W.modify a fun row => addAt row b 1

/-- the matrix `W` of `CEC_centrality` -/
def cecW (n : Nat) (edges : List (List Nat)) : List (List Rat) :=
  (edges.flatMap pairsOf).foldl (fun W p => bump (bump W p.1 p.2) p.2 p.1)
    (List.replicate n (List.replicate n 0))

def dot (a b : List Rat) : Rat := ((a.zip b).map fun p => p.1 * p.2).sum
/-- `np.dot(W, x)` -/
def matVec (W : List (List Rat)) (x : List Rat) : List Rat := W.map fun row => dot row x

def absR (a : Rat) : Rat := if a < 0 then -a else a
/-- `np.linalg.norm(y, 1)` -/
def l1 (y : List Rat) : Rat := (y.map absR).sum
/-- squared `np.linalg.norm(y)` -/
def sq2 (y : List Rat) : Rat := (y.map fun a => a * a).sum
def sgn (a : Rat) : Rat := if a < 0 then -1 else if a = 0 then 0 else 1

/-- `a - b` on vectors -/
def vsub (a b : List Rat) : List Rat := List.zipWith (· - ·) a b

/-- one step `x ↦ W x / ‖W x‖₂` of `power_method`; `c` stands for the float `np.linalg.norm(y)` -/
def cecStep (W : List (List Rat)) (c : Rat) (x : List Rat) : List Rat := (matVec W x).map (· / c)

/-- one step of the HEC iteration; `r` stands for `np.power(apply(HG, x, g), 1/m)` -/
def hecNormalize (r : List Rat) : List Rat := r.map fun a => sgn (r.getD 0 0) * a / l1 r

/-! ### the two loops (control only, generic in the loop body so that the driver can run the SAME control on a
recorded float trajectory and the theorems can instantiate the body with `cecStep` / the HEC step) -/

/-- the test `res > tol` of `power_method`; `none` is the initial `np.inf` -/
def pmGoOn (res : Option Rat) (tol : Rat) : Bool :=
  match res with
  | none => true
  | some r => decide (tol < r)

/-- `while res > tol and k < max_iter: (x, res) = body x; k += 1` of `power_method`, `fuel = max_iter - k`;
returns the final `x` and the number of passes made from here -/
def pmLoop {X : Type} (body : X → X × Rat) (tol : Rat) : Nat → Option Rat → X → X × Nat
  | 0, _, x => (x, 0)
  | fuel + 1, res, x =>
    if pmGoOn res tol then
      let p := body x
      let r := pmLoop body tol fuel (some p.2) p.1
      (r.1, r.2 + 1)
    else (x, 0)

/-- `power_method(W, max_iter, tol)` from the normalised start `x`: the body is one step, `nrm` stands for
`np.linalg.norm` (irrational, a parameter) -/
def pmBody (nrm : List Rat → Rat) (W : List (List Rat)) (x : List Rat) : List Rat × Rat :=
  let x' := cecStep W (nrm (matVec W x)) x
  (x', nrm (vsub x x'))

def powerMethod (nrm : List Rat → Rat) (W : List (List Rat)) (maxIter : Nat) (tol : Rat) (x : List Rat) : List Rat × Nat :=
  pmLoop (pmBody nrm W) tol maxIter none x

/-- `for iter in range(max_iter): new_x = step x; if dist x new_x <= tol: break; x = new_x` of `HEC_centrality`:
returns the final `x` (the iterate the test was applied to when it broke), the number of passes and whether the
loop was left by the `break` (otherwise "Iteration did not converge!" is printed) -/
def hecLoop {X : Type} (step : X → X) (dist : X → X → Rat) (tol : Rat) : Nat → X → X × Nat × Bool
  | 0, x => (x, 0, false)
  | fuel + 1, x =>
    if dist x (step x) ≤ tol then (x, 1, true)
    else
      let r := hecLoop step dist tol fuel (step x)
      (r.1, r.2.1 + 1, r.2.2)

end C20
