import Hgxv.Model.C01
/-!
# C01, extension round - the WHOLE `Hypergraph` object and the routines that build a new object from it

Core Lean only (compiled into `driver_c01`).  Same `namespace C01`; `Hgxv/Model/C01.lean` is unchanged (other
properties build on it), this file puts a second machine on top of it:

* **Extraction** (`Extract`, `extract : Store → Extract → Store × Out`, `Spec.extract`): `subhypergraph(nodes)`,
  `subhypergraph_by_orders(orders | sizes, keep_nodes)`, `get_edges(order, size, up_to, subhypergraph=True,
  keep_isolated_nodes)` - written as the code is, i.e. as calls of the public mutators on a fresh object
  (`add_nodes`, `set_node_metadata(get_node_metadata)`, `add_edge(get_weight, get_edge_metadata)`, `add_edges`,
  `set_edge_metadata(get_edge_metadata)`), loops as `seqOps`, every `raise` on the way as `Out.rej`
  (`andThen` = "the next statement runs only if the one before returned").  On `rej` the store that is returned is the
  half-built object, which Python throws away (`Full.step` ignores it).
* **The whole object** `Full` = `Store` + incidence metadata table (`_incidences_metadata`, keyed by the hyperedge
  *as the caller spelled it* and the node; never pruned by removals) + registry of empty hyperedges (`_empty_edges`,
  write-only: the only observable is that a second `add_empty_edge` of a name raises).  `FOp` = every `Op` +
  `set_incidence_metadata` + `add_empty_edge`; `clear()` also empties the two tables.  `FCmd` = constructor, `copy`,
  `FOp` on a slot, extraction from slot `i` into slot `j`.  `FQuery` = every `Query` + `get_incidence_metadata` +
  `get_all_incidences_metadata`.
* The abstract side (`FSpec`, `Spec.extract`, `FSpec.apply/step/run/query`) is the same over `Spec`; `fabs` forgets ids.
-/
namespace C01
open AL

/-- `r; f` where `f` runs only if `r` returned normally -/
def andThen {σ : Type} (r : σ × Out) (f : σ → σ × Out) : σ × Out :=
  match r with
  | (s, .ok) => f s
  | (s, .rej) => (s, .rej)

/-! ### extraction routines on the tables -/

/-- `h.set_node_metadata(node, self.get_node_metadata(node))` (either call raises for a node it does not have) -/
def copyNodeMeta (src h : Store) (n : Node) : Store × Out :=
  if (get? src.adj n).isSome then setNodeMeta h n ((get? src.nmeta n).getD []) else (h, .rej)

/-- `h.add_edge(edge, weight=self.get_weight(edge), metadata=self.get_edge_metadata(edge))` in a weighted
    hypergraph, `h.add_edge(edge, metadata=self.get_edge_metadata(edge))` otherwise; `edge` is a key of `self` -/
def copyEdge (src h : Store) (e : Edge) : Store × Out :=
  addEdge h e (if src.weighted then some (weightOf src e) else none) (some (emetaOf src e))

/-- `h.set_edge_metadata(edge, self.get_edge_metadata(edge))` -/
def copyEdgeMeta (src h : Store) (e : Edge) : Store × Out := setEdgeMeta h e (emetaOf src e)

/-- `set(edge).issubset(set(nodes))` -/
def insideOf (ns : List Node) (e : Edge) : Bool := e.all fun x => ns.contains x

/-- `subhypergraph(nodes)` -/
def subhypergraph (src : Store) (ns : List Node) : Store × Out :=
  andThen (addNodes (Store.new src.weighted []) ns none) fun h =>
  andThen (seqOps (copyNodeMeta src) h ns) fun h =>
  seqOps (copyEdge src) h ((keys src.edgeList).filter (insideOf ns))

/-- the `orders` / `sizes` arguments: exactly one must be given; orders become sizes -/
def sizesArg : Option (List Int) → Option (List Int) → Option (List Int)
  | none, none => none
  | some _, some _ => none
  | some os, none => some (os.map (· + 1))
  | none, some ks => some ks

/-- `for size in dict.fromkeys(sizes): for edge in self.get_edges(size=size)` -/
def edgesOfSizes (ks : List Int) (es : List Edge) : List Edge :=
  ks.eraseDups.flatMap fun k => es.filter (keepEdge (some (k - 1)) false)

/-- `subhypergraph_by_orders(orders, sizes, keep_nodes)` -/
def subOrders (src : Store) (os ks : Option (List Int)) (keep : Bool) : Store × Out :=
  match sizesArg os ks with
  | none => (Store.new src.weighted [], .rej)
  | some sz =>
    andThen (if keep then
        andThen (addNodes (Store.new src.weighted []) (keys src.adj) none) fun h =>
          seqOps (copyNodeMeta src) h (keys src.adj)
      else (Store.new src.weighted [], .ok)) fun h =>
    andThen (seqOps (copyEdge src) h (edgesOfSizes sz (keys src.edgeList))) fun h =>
    if keep then (h, .ok) else seqOps (copyNodeMeta src) h (keys h.adj)

/-- `get_edges(order, size, up_to, subhypergraph=True, keep_isolated_nodes=iso)` -/
def subEdges (src : Store) (f : Filter) (iso : Bool) : Store × Out :=
  match edgesF src f with
  | none => (Store.new src.weighted [], .rej)
  | some es =>
    andThen (if iso then addNodes (Store.new src.weighted []) (keys src.adj) none
             else (Store.new src.weighted [], .ok)) fun h =>
    andThen (addEdges h es (if src.weighted then some (es.map (weightOf src)) else none) none) fun h =>
    andThen (seqOps (copyNodeMeta src) h (keys h.adj)) fun h =>
    seqOps (copyEdgeMeta src) h es

inductive Extract
  | sub (ns : List Node)
  | orders (os ks : Option (List Int)) (keep : Bool)
  | edges (f : Filter) (iso : Bool)
  deriving DecidableEq, Repr

def extract (src : Store) : Extract → Store × Out
  | .sub ns => subhypergraph src ns
  | .orders os ks keep => subOrders src os ks keep
  | .edges f iso => subEdges src f iso

/-! ### the same routines on the abstract hypergraph -/
namespace Spec

def copyNodeMeta (src h : Spec) (n : Node) : Spec × Out :=
  if (get? src.nodes n).isSome then setNodeMeta h n ((get? src.nodes n).getD []) else (h, .rej)

def copyEdge (src h : Spec) (e : Edge) : Spec × Out :=
  addEdge h e (if src.weighted then some (weightOf src e) else none) (some (emetaOf src e))

def copyEdgeMeta (src h : Spec) (e : Edge) : Spec × Out := setEdgeMeta h e (emetaOf src e)

def subhypergraph (src : Spec) (ns : List Node) : Spec × Out :=
  andThen (addNodes (Spec.new src.weighted []) ns none) fun h =>
  andThen (seqOps (copyNodeMeta src) h ns) fun h =>
  seqOps (copyEdge src) h ((keys src.edges).filter (insideOf ns))

def subOrders (src : Spec) (os ks : Option (List Int)) (keep : Bool) : Spec × Out :=
  match sizesArg os ks with
  | none => (Spec.new src.weighted [], .rej)
  | some sz =>
    andThen (if keep then
        andThen (addNodes (Spec.new src.weighted []) (keys src.nodes) none) fun h =>
          seqOps (copyNodeMeta src) h (keys src.nodes)
      else (Spec.new src.weighted [], .ok)) fun h =>
    andThen (seqOps (copyEdge src) h (edgesOfSizes sz (keys src.edges))) fun h =>
    if keep then (h, .ok) else seqOps (copyNodeMeta src) h (keys h.nodes)

def subEdges (src : Spec) (f : Filter) (iso : Bool) : Spec × Out :=
  match edgesF src f with
  | none => (Spec.new src.weighted [], .rej)
  | some es =>
    andThen (if iso then addNodes (Spec.new src.weighted []) (keys src.nodes) none
             else (Spec.new src.weighted [], .ok)) fun h =>
    andThen (addEdges h es (if src.weighted then some (es.map (weightOf src)) else none) none) fun h =>
    andThen (seqOps (copyNodeMeta src) h (keys h.nodes)) fun h =>
    seqOps (copyEdgeMeta src) h es

def extract (src : Spec) : Extract → Spec × Out
  | .sub ns => subhypergraph src ns
  | .orders os ks keep => subOrders src os ks keep
  | .edges f iso => subEdges src f iso

end Spec

/-! ### the whole object -/

/-- key of `_incidences_metadata`: (the hyperedge as the caller wrote it, node) -/
abbrev IncKey := List Nat × Node

structure Full where
  base : Store := {}
  inc : List (IncKey × Meta) := []
  empties : List (Nat × Meta) := []
  deriving DecidableEq, Repr

structure FSpec where
  base : Spec := {}
  inc : List (IncKey × Meta) := []
  empties : List (Nat × Meta) := []
  deriving DecidableEq, Repr

inductive FOp
  | base (op : Op)
  | setIncMeta (raw : List Nat) (n : Node) (md : Meta)
  | addEmptyEdge (name : Nat) (md : Meta)
  deriving DecidableEq, Repr

def FOp.WF : FOp → Prop
  | .base op => op.WF
  | _ => True

/-- `clear()` also empties `_incidences_metadata` and `_empty_edges`; every other `Op` leaves them alone -/
def isClear : Op → Bool
  | .clear => true
  | _ => false

/-- `self._incidences_metadata[(edge, node)] = metadata` / `self._empty_edges[name] = metadata` -/
def regSetInc (inc : List (IncKey × Meta)) (present : Bool) (raw : List Nat) (n : Node) (md : Meta) :
    List (IncKey × Meta) × Out :=
  if present then (AL.set inc (raw, n) md, .ok) else (inc, .rej)

def regAddEmpty (em : List (Nat × Meta)) (name : Nat) (md : Meta) : List (Nat × Meta) × Out :=
  if (get? em name).isSome then (em, .rej) else (AL.set em name md, .ok)

def Full.apply (s : Full) : FOp → Full × Out
  | .base op =>
    let r := C01.apply s.base op
    (if isClear op then { base := r.1 } else { s with base := r.1 }, r.2)
  | .setIncMeta raw n md =>
    -- `if tuple(sorted(edge)) not in self._edge_list: raise ValueError`
    let r := regSetInc s.inc (get? s.base.edgeList (canon raw)).isSome raw n md
    ({ s with inc := r.1 }, r.2)
  | .addEmptyEdge name md =>
    let r := regAddEmpty s.empties name md
    ({ s with empties := r.1 }, r.2)

def FSpec.apply (a : FSpec) : FOp → FSpec × Out
  | .base op =>
    let r := Spec.apply a.base op
    (if isClear op then { base := r.1 } else { a with base := r.1 }, r.2)
  | .setIncMeta raw n md =>
    let r := regSetInc a.inc (get? a.base.edges (canon raw)).isSome raw n md
    ({ a with inc := r.1 }, r.2)
  | .addEmptyEdge name md =>
    let r := regAddEmpty a.empties name md
    ({ a with empties := r.1 }, r.2)

inductive FCmd
  | new (i : Nat) (weighted : Bool) (hm : Meta)
  | copy (i j : Nat)
  | on (i : Nat) (op : FOp)
  | extract (i j : Nat) (x : Extract)
  deriving DecidableEq, Repr

def FCmd.WF : FCmd → Prop
  | .on _ op => op.WF
  | _ => True

abbrev FState := List Full
abbrev FSState := List FSpec

def finit (k : Nat) : FState := List.replicate k { base := Store.new false [] }
def FSpec.init (k : Nat) : FSState := List.replicate k { base := Spec.new false [] }

def fstep (st : FState) : FCmd → FState × Out
  | .new i w hm => if i < st.length then (st.set i { base := Store.new w hm }, .ok) else (st, .rej)
  | .copy i j =>
    match st[i]? with
    | some s => if j < st.length then (st.set j s, .ok) else (st, .rej)
    | none => (st, .rej)
  | .on i op =>
    match st[i]? with
    | some s => let r := s.apply op; (st.set i r.1, r.2)
    | none => (st, .rej)
  | .extract i j x =>
    match st[i]? with
    | some s =>
      if j < st.length then
        match C01.extract s.base x with
        | (h, .ok) => (st.set j { base := h }, .ok)
        | (_, .rej) => (st, .rej)
      else (st, .rej)
    | none => (st, .rej)

def FSpec.step (st : FSState) : FCmd → FSState × Out
  | .new i w hm => if i < st.length then (st.set i { base := Spec.new w hm }, .ok) else (st, .rej)
  | .copy i j =>
    match st[i]? with
    | some s => if j < st.length then (st.set j s, .ok) else (st, .rej)
    | none => (st, .rej)
  | .on i op =>
    match st[i]? with
    | some s => let r := s.apply op; (st.set i r.1, r.2)
    | none => (st, .rej)
  | .extract i j x =>
    match st[i]? with
    | some s =>
      if j < st.length then
        match Spec.extract s.base x with
        | (h, .ok) => (st.set j { base := h }, .ok)
        | (_, .rej) => (st, .rej)
      else (st, .rej)
    | none => (st, .rej)

def frun (st : FState) (cs : List FCmd) : FState := cs.foldl (fun st c => (fstep st c).1) st
def FSpec.run (st : FSState) (cs : List FCmd) : FSState := cs.foldl (fun st c => (FSpec.step st c).1) st

inductive FQuery
  | base (q : Query)
  | incMeta (raw : List Nat) (n : Node)
  | allIncMeta
  deriving DecidableEq, Repr

inductive FAns
  | base (a : Ans)
  | imetas (l : List (IncKey × Meta))
  deriving DecidableEq, Repr

/-- `get_incidence_metadata(edge, node)`: ValueError for an absent hyperedge, KeyError for an absent entry -/
def regGetInc (inc : List (IncKey × Meta)) (present : Bool) (raw : List Nat) (n : Node) : FAns :=
  if present then
    match get? inc (raw, n) with
    | some md => .base (.dict md)
    | none => .base .rej
  else .base .rej

def Full.answer (s : Full) : FQuery → FAns
  | .base q => .base (C01.answer s.base q)
  | .incMeta raw n => regGetInc s.inc (get? s.base.edgeList (canon raw)).isSome raw n
  | .allIncMeta => .imetas s.inc

def FSpec.answer (a : FSpec) : FQuery → FAns
  | .base q => .base (Spec.answer a.base q)
  | .incMeta raw n => regGetInc a.inc (get? a.base.edges (canon raw)).isSome raw n
  | .allIncMeta => .imetas a.inc

def fquery (st : FState) (i : Nat) (q : FQuery) : FAns :=
  match st[i]? with
  | some s => s.answer q
  | none => .base .rej

def FSpec.query (st : FSState) (i : Nat) (q : FQuery) : FAns :=
  match st[i]? with
  | some s => s.answer q
  | none => .base .rej

def fabs (s : Full) : FSpec := { base := abs s.base, inc := s.inc, empties := s.empties }

/-- a history of the base machine as a history of the whole-object machine -/
def Cmd.lift : Cmd → FCmd
  | .new i w hm => .new i w hm
  | .copy i j => .copy i j
  | .on i op => .on i (.base op)

end C01
