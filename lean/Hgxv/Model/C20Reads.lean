import Hgxv.Model.C20
/-! `line_graph` / `s_betweenness` / `s_closeness` as functions of what the code READS of the object it is handed
(core Lean only).  `Model/C20.lean` describes the projections of a hypergraph given by its listing (`get_nodes()`,
`get_edges()`).  The code, however, takes three readings of the object that need not fit together when the object is
not a well-formed container (a hyperedge registered half-way by a call that raised; member-less edges counted by
`__len__`):

* `get_edges()`                         - the id table `edge_to_id` / `id_to_edge`,
* `len(h)`                              - the vertices `range(len(h))` of the line graph,
* `get_incident_edges(n)` per node `n`  - the pairs of hyperedges that are compared at all.

`lineEdgesR` / `lineGraphR` / `sEdgesR` follow the loops of `projections.line_graph` on these readings (`none` = the
`KeyError` of `edge_to_id[...]` / `id_to_edge[...]`).  `Coherent` is what a well-formed `Hypergraph` guarantees (the
invariant of the C01 container model); under it the readings-level functions are the listing-level ones
(`Props/C20.lean`, `C20_line_reads`, `C20_edges_reads`). -/
namespace C20
section Reads
variable {α : Type} [DecidableEq α]

/-- the three readings of `line_graph`; `inc` = `(node, get_incident_edges(node))` in `get_nodes()` order -/
structure Reads (α : Type) where
  edges : List (List α)
  len : Nat
  inc : List (α × List (List α))

/-- the position pairs `i < j` of one list: `for i in range(len(l) - 1): for j in range(i + 1, len(l))` -/
def pairsLt {β : Type} : List β → List (β × β)
  | [] => []
  | a :: t => t.map (fun b => (a, b)) ++ pairsLt t

/-- `edge_to_id[key]`; `none` = `KeyError` -/
def edgeId (keys : List (List α)) (k : List α) : Option Nat :=
  if k ∈ keys then some (keys.idxOf k) else none

/-- `tuple(sorted((i, j)))` -/
def normPair (i j : Nat) : Nat × Nat := if i ≤ j then (i, j) else (j, i)

/-- one pass of the inner loop for the incident hyperedges `p.1`, `p.2` of some node: the id pair and `w >= s` -/
def visit (s : Nat) (keys : List (List α)) (p : List α × List α) : Option ((Nat × Nat) × Bool) :=
  match edgeId keys p.1, edgeId keys p.2 with
  | some i, some j => some (normPair i j, decide (s ≤ inter p.1 p.2))
  | _, _ => none

/-- a `networkx.Graph` keeps one copy of an edge that is added again -/
def dedupe {β : Type} [DecidableEq β] (l : List β) : List β := l.foldl addNew []

/-- the edges of `line_graph(h, s=s)[0]` as the loops produce them from the readings -/
def lineEdgesR (s : Nat) (srt : List α → List α) (R : Reads α) : Option (List (Nat × Nat)) :=
  ((R.inc.flatMap fun p => pairsLt p.2).mapM (visit s (R.edges.map srt))).map fun vs =>
    dedupe ((vs.filter fun v => v.2).map fun v => v.1)

/-- `line_graph(h, s=s)[0]`: vertices `range(len(h))` -/
def lineGraphR (srt : List α → List α) (R : Reads α) (s : Nat) : Option (Graph Nat) :=
  (lineEdgesR s srt R).map fun es => { verts := List.range R.len, edges := es }

/-- `s_betweenness(H, s)` / `s_closeness(H, s)` on the readings -/
def sEdgesR (cent : Graph Nat → Nat → Rat) (srt : List α → List α) (R : Reads α) (s : Nat) :
    Option (List (List α × Rat)) :=
  (lineGraphR srt R s).bind fun g => (lookupItems (idTable srt R.edges) (centDict cent g)).map dictOf

/-- what a well-formed `Hypergraph` guarantees about the three readings -/
structure Coherent (srt : List α → List α) (R : Reads α) : Prop where
  /-- `get_edges()` lists pairwise different keys -/
  keys_nodup : (R.edges.map srt).Nodup
  /-- a hyperedge has pairwise different members -/
  key_nodup : ∀ a ∈ R.edges.map srt, a.Nodup
  /-- `len(h)` is the number of listed hyperedges -/
  len_eq : R.len = R.edges.length
  /-- `get_incident_edges(n)` lists each incident hyperedge once ... -/
  inc_nodup : ∀ p ∈ R.inc, p.2.Nodup
  /-- ... and exactly the listed hyperedges that contain `n` -/
  inc_mem : ∀ p ∈ R.inc, ∀ a, a ∈ p.2 ↔ (a ∈ R.edges.map srt ∧ p.1 ∈ a)
  /-- every member of a listed hyperedge is a node of `get_nodes()` -/
  members : ∀ a ∈ R.edges.map srt, ∀ x ∈ a, ∃ p ∈ R.inc, p.1 = x

/-- the readings of a hypergraph given by its listing (what a well-formed container returns) -/
def readsOf (srt : List α → List α) (H : HG α) : Reads α :=
  { edges := H.edges, len := H.edges.length,
    inc := H.nodes.map fun x => (x, (H.edges.map srt).filter fun a => decide (x ∈ a)) }

end Reads
end C20
