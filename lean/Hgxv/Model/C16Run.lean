import Hgxv.Model.C16
import Hgxv.Model.C16Deg
/-! # C16, second extension round: whole runs WITHOUT the hypothesis "every hyperedge has at least two nodes"

`C16.sampleFromHyg` weights every hyperedge of the chain state with `truncWeights` (>= 1): it describes the code only for
initial hypergraphs whose hyperedges have at least two nodes.  Here the whole run `sample(initial_hyg=h)` is one model
function for EVERY hypergraph of sets: chain (`mcmcRoutine`, sizes are immaterial to it), then per yield the output stage
with the nan mean of a degenerate hyperedge (`outputStageD`).  Core Lean only. -/
namespace C16

/-- one yield: the quantile tape of this yield has one entry per hyperedge of the chain state (`rng.random(E)`) -/
def outputStageR (cfg : Config) (qs : List Nat) (labels : Option (List Nat)) : Option (List (Hye × Nat)) :=
  if qs.length = cfg.length then outputStageD cfg qs labels else none

def outputsOfD : List Config → List (List Nat) → Option (List Nat) → Option (List (List (Hye × Nat)))
  | [], _, _ => some []
  | _ :: _, [], _ => none
  | c :: cs, q :: qs, labels =>
    (outputStageR c q labels).bind (fun o => (outputsOfD cs qs labels).map (fun r => o :: r))

/-- chain + output stage from an initial configuration of sets of ANY size -/
def sampleFromConfigD (cfg fixed : Config) (labels : Option (List Nat)) (t : OwnTape) :
    Option (List (List (Hye × Nat))) :=
  (mcmcRoutine cfg fixed t.burn t.thins).bind (fun ys => outputsOfD ys t.quantiles labels)

/-- `sample(initial_hyg=h)` for every hypergraph `h` (one-node / empty hyperedges included) -/
def sampleFromHygD (labels : List Nat) (edges : Config) (t : OwnTape) :
    Option (List (List (Hye × Nat))) :=
  (edges.mapM (transform labels)).bind (fun cfg => sampleFromConfigD cfg [] (some labels) t)

end C16
