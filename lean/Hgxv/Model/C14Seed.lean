import Hgxv.Model.C14Meta
/-!
# C14 (second extension round): the `seed` option of every seeded routine as a program over the named sources

`add_random_edge`, `add_random_edges` seed and draw from **random**; `random_shuffle` seeds **np.random**, draws the
indices from **random** (never seeded by the routine) and the replacement nodes from **np.random**.  `seed` is an
`Option Nat`: `if seed is not None` - `some 0` seeds like any other seed.  Core Lean only.
-/
namespace C14


/-- `add_random_edge(hg, order, size, inplace, seed)`: argument check, THEN `random.seed`, then one `random.sample`
    (which raises - without a draw - when `size` exceeds the number of nodes) -/
def addRandomEdgeS {σ} (g : RNG σ) (h : HG) (order size : Option Nat) (inplace : Bool) (seed : Option Nat)
    (w : World σ) : Option CallResult × World σ :=
  match resolveSize order size with
  | none => (none, w)
  | some s =>
    let w1 := seedPy g seed w
    if s ≤ h.nodes.length then
      let r := g.sample w1.py h.nodes s
      (addRandomEdge h order size inplace r.1, { w1 with py := r.2 })
    else (none, w1)

/-- `while len(edges) < k: edges.add(tuple(sorted(random.sample(nodes, size))))` run on a generator: the draws it
    takes.  `fuel` bounds the number of draws (STATED fuel: the loop of the code has no bound; a run that needs more
    than `fuel` draws is reported as "did not return", see `addRandomEdgesS`). -/
def drawUntil {σ} (g : RNG σ) (pop : List Nat) (size k : Nat) : Nat → List Edge → σ → List (List Nat) × σ
  | 0, _, s => ([], s)
  | f + 1, acc, s =>
    if acc.length < k then
      let r := g.sample s pop size
      let rest := drawUntil g pop size k f (insNew acc (sortE r.1)) r.2
      (r.1 :: rest.1, rest.2)
    else ([], s)

/-- `add_random_edges(hg, k, order, size, inplace, seed)` within `fuel` draws; `none` = rejected arguments / `sample`
    raised / the loop did not stop within `fuel` draws -/
def addRandomEdgesS {σ} (g : RNG σ) (h : HG) (k : Nat) (order size : Option Nat) (inplace : Bool) (seed : Option Nat)
    (fuel : Nat) (w : World σ) : Option CallResult × World σ :=
  match resolveSize order size with
  | none => (none, w)
  | some s =>
    let w1 := seedPy g seed w
    if k = 0 ∨ s ≤ h.nodes.length then
      let r := drawUntil g h.nodes s k fuel [] w1.py
      (if consumedExactly k [] r.1 then addRandomEdges h k order size inplace r.1 else none, { w1 with py := r.2 })
    else (none, w1)

/-- `np.random.choice(pool, size, replace=False, p=weights)`: state, pool, (unnormalised) weights, size -/
abbrev Choice (σ : Type) := σ → List Nat → List Nat → Nat → List Nat × σ

/-- one `np.random.choice` per selected position, in the order of `current_edges` -/
def drawChoices {σ} (c : Choice σ) (pl wts : List Nat) (size : Nat) (idx : List Nat) :
    List (Edge × Rec) → Nat → σ → List (List Nat) × σ
  | [], _, s => ([], s)
  | _ :: rest, i, s =>
    if i ∈ idx then
      let r := c s pl wts size
      let more := drawChoices c pl wts size idx rest (i + 1) r.2
      (r.1 :: more.1, more.2)
    else drawChoices c pl wts size idx rest (i + 1) s

/-- `random_shuffle(hg, order, size, inplace, p = pn/pd, preserve_degree, seed)`: argument checks, `np.random.seed`,
    `random.sample(range(m), int(p*m))` from **random**, the replacement nodes from **np.random** -/
def randomShuffleS {σ} (g : RNG σ) (c : Choice σ) (h : HG) (order size : Option Nat) (inplace : Bool) (pn : Int)
    (pd : Nat) (preserve : Bool) (seed : Option Nat) (w : World σ) : Option CallResult × World σ :=
  match resolveSize order size with
  | none => (none, w)
  | some s =>
    if 0 ≤ pn ∧ pn ≤ pd then
      let w1 := seedNp g seed w
      let cur := edgesOfSize h s
      let r := g.sample w1.py (List.range cur.length) (numToRandomize pn.toNat pd cur.length)
      let ch := drawChoices c (pool cur r.1) (poolWeights cur r.1 preserve) s r.1 cur 0 w1.np
      (randomShuffle h order size inplace pn pd r.1 ch.1, { py := r.2, np := ch.2 })
    else (none, w)

/-- the seeded BUG `if seed:` for `if seed is not None:` - a witness only (no theorem is about it): seed 0 is ignored -/
def seedPyTruthy {σ} (g : RNG σ) (seed : Option Nat) (w : World σ) : World σ :=
  match seed with
  | some 0 => w
  | some s => { w with py := g.seed s }
  | none => w

/-! ### objects WITH their tables: how deep `copy()` is
An object of the store now is a hypergraph with all its tables (`HGM`: content incl. weights and hyperedge metadata, node
metadata, hypergraph metadata, incidence metadata).  `hg.copy()` allocates a new object whose tables are VALUES of
their own (no table, weight or metadata record is shared with the argument): writing into the new object is `AL.set`
at ITS id with any new content. -/
abbrev HeapM := List (Nat × HGM)

def freshIdM (H : HeapM) : Nat := (AL.keys H).foldl max 0 + 1

def finishObjM (H : HeapM) (a : Nat) (inplace : Bool) (m' : HGM) : HeapM × Option Nat :=
  if inplace then (AL.set H a m', none) else (AL.set H (freshIdM H) m', some (freshIdM H))

def finishObjAllM (H : HeapM) (a : Nat) (inplace : Bool) (m' : HGM) : HeapM × Option Nat :=
  if inplace then (AL.set H a m', some a) else (AL.set H (freshIdM H) m', some (freshIdM H))

/-- a later mutation of an object by the caller: ANY new content and tables -/
def poke (H : HeapM) (r : Nat) (x : HGM) : HeapM := AL.set H r x

/-- a concrete generator algorithm for the examples: the state is a counter, `seed s` sets it to `s`, a sample is the
population rotated by the state -/
def demoRNG : RNG Nat where
  seed := fun s => s
  sample := fun s pop k => ((pop.rotateLeft (s % (pop.length + 1))).take k, s + 1)

/-- a concrete `np.random.choice` for the examples: the pool rotated by the state -/
def demoChoice : Choice Nat := fun s pl _ k => ((pl.rotateLeft (s % (pl.length + 1))).take k, s + 1)

end C14
