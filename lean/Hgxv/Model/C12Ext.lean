import Hgxv.Model.C12
import Hgxv.Model.AList
/-! C12, extension round (core Lean only): the anchored routines AS THE PYTHON CODE RUNS THEM - the option handling
of `in_degree / out_degree(order=, size=)`, the accumulation loops of `hyperedge_signature_vector` (a 2-d array bumped
per hyperedge, then flattened; the default bound `max(get_sizes())`), the three dict-building loops of `reciprocity.py`
(`tot[size] += 1`, `node_reach[node] = node_reach[node].union(..)`, `bin_edges[(i, j)] = 1`, `rec[size] += 1`) - next to
the closed forms of `Model/C12.lean`, plus the aggregate quantities the identities between the measures speak about
(degree sums, side-size sums, row / column / anti-diagonal sums of the signature, the reversed hypergraph). -/
namespace C12

/-! ## option handling of `get_source_edges / get_target_edges(node, order=None, size=None)` -/

/-- `order` and `size` as given by the caller -> the total size selected (`some none` = no filter);
`none` = `ValueError("Order and size cannot be both specified.")` -/
def filterArg (order size : Option Nat) : Option (Option Nat) :=
  match order, size with
  | some _, some _ => none
  | none, none => some none
  | _, some k => some (some k)
  | some o, none => some (some (o + 1))

/-- `in_degree(h, node, order, size)`; `none` = the call raises (unknown node, or both options) -/
def inDegreeCall (nodes : List Nat) (es : List DEdge) (order size : Option Nat) (n : Nat) : Option Nat :=
  if nodes.contains n then (filterArg order size).map (fun f => inDegree es f n) else none
def outDegreeCall (nodes : List Nat) (es : List DEdge) (order size : Option Nat) (n : Nat) : Option Nat :=
  if nodes.contains n then (filterArg order size).map (fun f => outDegree es f n) else none

/-- `in_degree_sequence(h, order, size)`: the dict comprehension over `get_nodes()`; raises as soon as one call does -/
def inDegreeSeqCall (nodes : List Nat) (es : List DEdge) (order size : Option Nat) : Option (List (Nat × Nat)) :=
  match nodes, filterArg order size with
  | [], _ => some []
  | _, none => none
  | ns, some f => some (inDegreeSeq ns es f)
def outDegreeSeqCall (nodes : List Nat) (es : List DEdge) (order size : Option Nat) : Option (List (Nat × Nat)) :=
  match nodes, filterArg order size with
  | [], _ => some []
  | _, none => none
  | ns, some f => some (outDegreeSeq ns es f)

/-! ## aggregate quantities -/

/-- the hyperedges a filter selects -/
def selected (es : List DEdge) (size : Option Nat) : List DEdge := es.filter (passes size)

/-- `sum(in_degree_sequence(h, size=..).values())` -/
def sumInDegrees (nodes : List Nat) (es : List DEdge) (size : Option Nat) : Nat :=
  List.sum (nodes.map (inDegree es size))
def sumOutDegrees (nodes : List Nat) (es : List DEdge) (size : Option Nat) : Nat :=
  List.sum (nodes.map (outDegree es size))
/-- `sum(len(e[0]) for e in selected)` -/
def sumSourceSizes (es : List DEdge) (size : Option Nat) : Nat := List.sum ((selected es size).map (·.1.length))
def sumTargetSizes (es : List DEdge) (size : Option Nat) : Nat := List.sum ((selected es size).map (·.2.length))

/-- the reversed hypergraph: every hyperedge with source and target exchanged -/
def reverse (es : List DEdge) : List DEdge := es.map (fun e => (e.2, e.1))

/-! ## counting loops: `tab[key] += 1` over a table indexed `0 .. n-1` -/

/-- `tab[i] += 1` (an index outside the table leaves it alone; the callers never produce one) -/
def bump : List Nat → Nat → List Nat
  | [], _ => []
  | x :: xs, 0 => (x + 1) :: xs
  | x :: xs, i + 1 => x :: bump xs i

/-- `tab = {i: 0 ...}; for e in es: tab[key(e)] += 1` -/
def countLoop (key : DEdge → Nat) (n : Nat) (es : List DEdge) : List Nat :=
  es.foldl (fun t e => bump t (key e)) (List.replicate n 0)

/-- the same loop with the test of the Python body: `for e in es: if c(e): tab[key(e)] += 1` -/
def countLoopIf (c : DEdge → Bool) (key : DEdge → Nat) (n : Nat) (es : List DEdge) : List Nat :=
  es.foldl (fun t e => if c e then bump t (key e) else t) (List.replicate n 0)

/-! ## `hyperedge_signature_vector` as the code runs it -/

/-- `signature[r, c] += 1` on a list of rows -/
def bump2 : List (List Nat) → Nat → Nat → List (List Nat)
  | [], _, _ => []
  | row :: rows, 0, c => bump row c :: rows
  | row :: rows, r + 1, c => row :: bump2 rows r c

/-- `np.zeros((m-1, m-1))`, then one bump per hyperedge of `get_edges(size=m, up_to=True)` -/
def signatureMatrix (es : List DEdge) (m : Nat) : List (List Nat) :=
  (es.filter (fun e => esize e ≤ m)).foldl (fun M e => bump2 M (e.1.length - 1) (e.2.length - 1))
    (List.replicate (m - 1) (List.replicate (m - 1) 0))

/-- `signature.flatten()` -/
def signatureLoop (es : List DEdge) (m : Nat) : List Nat := (signatureMatrix es m).flatten

/-- `max(hypergraph.get_sizes())`, `none` = `ValueError` (no hyperedge) -/
def maxSize : List DEdge → Option Nat
  | [] => none
  | e :: es => match maxSize es with
    | none => some (esize e)
    | some k => some (if k < esize e then esize e else k)

/-- `hyperedge_signature_vector(h)` with the default bound: `np.array([])` for a hypergraph without hyperedges -/
def signatureDefault (es : List DEdge) : List Nat :=
  match maxSize es with
  | none => []
  | some m => signatureLoop es m

/-- number of sources summed over the cells: cell `(a, b)` (1-based) contributes `a * count` -/
def sigSourceWeighted (sig : List Nat) (m : Nat) : Nat :=
  List.sum ((List.range ((m - 1) * (m - 1))).map (fun idx => (idx / (m - 1) + 1) * sig.getD idx 0))
def sigTargetWeighted (sig : List Nat) (m : Nat) : Nat :=
  List.sum ((List.range ((m - 1) * (m - 1))).map (fun idx => (idx % (m - 1) + 1) * sig.getD idx 0))

/-- the anti-diagonal `a + b = k` of the signature: cells `(a, k - a)`, `a = 1 .. k-1` -/
def sigDiagonal (sig : List Nat) (m k : Nat) : Nat :=
  List.sum ((List.range (k - 1)).map (fun a => sig.getD (a * (m - 1) + (k - 2 - a)) 0))

/-! ## `reciprocity.py` as the code runs it -/

def inBound (m : Nat) (e : DEdge) : Bool := 2 ≤ esize e && esize e ≤ m

/-- `tot`: `for edge in edges: if 2 <= size <= m: tot[size] += 1` (a table indexed `0..m`; the dict has keys `2..m`) -/
def totLoop (es : List DEdge) (m : Nat) : List Nat := countLoopIf (inBound m) esize (m + 1) es

/-- `d[key] = 1` on the key list of a dict: a key that is present keeps its place, a new one goes to the end -/
def dictAdd {α : Type} [BEq α] (keys : List α) (k : α) : List α := if keys.contains k then keys else keys ++ [k]

/-- `edge_set`: the keys of the dict filled under the same test, in insertion order -/
def edgeSetLoop (es : List DEdge) (m : Nat) : List DEdge :=
  es.foldl (fun acc e => if inBound m e then dictAdd acc e else acc) []

/-- one hyperedge of the `node_reach` loop: `for node in edge[0]: node_reach[node] = (node_reach[node] ∪) set(edge[1])` -/
def reachStep (tbl : List (Nat × List Nat)) (e : DEdge) : List (Nat × List Nat) :=
  e.1.foldl (fun t n => AL.set t n (match AL.get? t n with
    | none => e.2
    | some r => r ++ e.2)) tbl

/-- the dict `node_reach` after the first loop of `strong_reciprocity` -/
def reachLoop (es : List DEdge) (m : Nat) : List (Nat × List Nat) :=
  es.foldl (fun t e => if inBound m e then reachStep t e else t) []

/-- `covered`: `for node in target: if node in node_reach: covered = covered.union(node_reach[node])` -/
def coveredStep (tbl : List (Nat × List Nat)) (c : List Nat) (t : Nat) : List Nat :=
  match AL.get? tbl t with
  | some r => c ++ r
  | none => c
def coveredLoop (tbl : List (Nat × List Nat)) (target : List Nat) : List Nat :=
  target.foldl (coveredStep tbl) []

/-- `set(source).issubset(covered)` -/
def strongTest (tbl : List (Nat × List Nat)) (e : DEdge) : Bool :=
  e.1.all (fun s => (coveredLoop tbl e.2).contains s)

/-- the dict `bin_edges` (its keys): `for i in source: for j in target: bin_edges[(i, j)] = 1` under the size test -/
def pairsOf (e : DEdge) : List (Nat × Nat) := e.1.flatMap (fun i => e.2.map (fun j => (i, j)))
def binStep (acc : List (Nat × Nat)) (e : DEdge) : List (Nat × Nat) := (pairsOf e).foldl dictAdd acc
def binLoop (es : List DEdge) (m : Nat) : List (Nat × Nat) :=
  es.foldl (fun acc e => if inBound m e then binStep acc e else acc) []

/-- the double loop with `break`: some `(j, i) in bin_edges` -/
def weakTest (bins : List (Nat × Nat)) (e : DEdge) : Bool :=
  e.1.any (fun i => e.2.any (fun j => bins.contains (j, i)))

/-- `(reciprocated_edge) in edge_set` -/
def exactTest (edgeSet : List DEdge) (e : DEdge) : Bool := edgeSet.contains (e.2, e.1)

/-- `rec`: `for edge in edge_set: if test(edge): rec[size] += 1` -/
def recLoop (test : DEdge → Bool) (edgeSet : List DEdge) (m : Nat) : List Nat :=
  countLoopIf test esize (m + 1) edgeSet

/-- the last loop: `rec[size] / tot[size]` if `tot[size] != 0` else `0`, sizes `2..m` -/
def ratioLoop (rec tot : List Nat) (m : Nat) : List (Nat × Rat) :=
  ((List.range (m + 1)).filter (2 ≤ ·)).map (fun k => (k, ratio (rec.getD k 0) (tot.getD k 0)))

/-- the state of the FIRST loop of the three routines (`exact` fills `tot` and `edge_set`, `strong` also `node_reach`,
`weak` also `bin_edges`), one pass over `get_edges()` -/
structure FirstLoop where
  tot : List Nat
  edgeSet : List DEdge
  reach : List (Nat × List Nat)
  bins : List (Nat × Nat)

def firstStep (m : Nat) (st : FirstLoop) (e : DEdge) : FirstLoop :=
  if inBound m e then
    { tot := bump st.tot (esize e), edgeSet := dictAdd st.edgeSet e, reach := reachStep st.reach e,
      bins := binStep st.bins e }
  else st

def firstLoop (es : List DEdge) (m : Nat) : FirstLoop :=
  es.foldl (firstStep m) { tot := List.replicate (m + 1) 0, edgeSet := [], reach := [], bins := [] }

/-- the routines: first loop (one pass), second loop over `edge_set`, division loop -/
def exactRun (es : List DEdge) (m : Nat) : List (Nat × Rat) :=
  let st := firstLoop es m
  ratioLoop (recLoop (exactTest st.edgeSet) st.edgeSet m) st.tot m
def strongRun (es : List DEdge) (m : Nat) : List (Nat × Rat) :=
  let st := firstLoop es m
  ratioLoop (recLoop (strongTest st.reach) st.edgeSet m) st.tot m
def weakRun (es : List DEdge) (m : Nat) : List (Nat × Rat) :=
  let st := firstLoop es m
  ratioLoop (recLoop (weakTest st.bins) st.edgeSet m) st.tot m

def exactLoop (es : List DEdge) (m : Nat) : List (Nat × Rat) :=
  let edgeSet := edgeSetLoop es m
  ratioLoop (recLoop (exactTest edgeSet) edgeSet m) (totLoop es m) m

def strongLoop (es : List DEdge) (m : Nat) : List (Nat × Rat) :=
  let edgeSet := edgeSetLoop es m
  ratioLoop (recLoop (strongTest (reachLoop es m)) edgeSet m) (totLoop es m) m

def weakLoop (es : List DEdge) (m : Nat) : List (Nat × Rat) :=
  let edgeSet := edgeSetLoop es m
  ratioLoop (recLoop (weakTest (binLoop es m)) edgeSet m) (totLoop es m) m

end C12
