import Hgxv.Model.C02X
/-! # C02, second extension round - the constructor as public calls, the raw setters, `populate_from_dict`, `get_mapping`

Core Lean only (compiled into `driver_c02`).  `Model/C02.lean` and `Model/C02X.lean` are UNCHANGED; this file sits on top.

* `ctorInit / ctorCalls / ctorOwnRej`: `DirectedHypergraph(edge_list, weighted, weights, hypergraph_metadata, node_metadata,
  edge_metadata)` (`ctor` of `Model/C02.lean`) read as the PUBLIC calls it makes on the empty object whose hypergraph
  metadata was written by the first two statements: `add_node(n, metadata=md)` per entry of `node_metadata`, then ONE
  `add_edges(edge_list, weights, edge_metadata)` when `edge_list is not None`; `ctorOwnRej` is the constructor's own
  `ValueError` (weighted, weights given, different lengths).  `ctorRejArgs`: the rejection read off the arguments alone.
* raw setters `set_edge_list`, `set_adj_dict(.., 'source'|'target')` (plain attribute assignment; any other second argument
  raises `ValueError`), `populate_from_dict(data)` (`data.get(name, default)` per table, incl. `incidences_metadata`,
  which `expose_data_structures()` does NOT hand out - so a populate of an expose result EMPTIES the incidence table).
* `RawOp` = public call (`FOp`) | the raw calls; `rawStep / rawRun`; `RawOp.echo`: the raw call hands back what the
  matching getter returns at that moment; `pubOps`: the public calls of a mixed history (a `populate` of an expose result
  stands for "forget the incidence table": `RawOp.pop`).
* `mapping / indexOf?`: `get_mapping()` = `LabelEncoder().fit(self.get_nodes())`: `classes_` = the sorted distinct
  nodes, `transform([n])` = position in `classes_` (unseen label: `ValueError`). -/
namespace C02
open AL

/-! ### constructor as public calls -/

/-- the object after the first statements of `__init__` (before any `add_node` / `add_edges`) -/
def ctorInit (w : Bool) (hm : Option Meta) : Store := { weighted := w, hmeta := ctorHMeta hm w }

/-- the `add_node` calls of the `node_metadata` loop -/
def ctorNodeCalls (nm : Option (List (Node × Meta))) : List Op :=
  (nm.getD []).map (fun p => Op.addNode p.1 (some p.2))

/-- every public call the constructor makes, in order -/
def ctorCalls (nm : Option (List (Node × Meta))) (es : Option (List RawEdge)) (ws : Option (List Int))
    (mds : Option (List Meta)) : List Op :=
  ctorNodeCalls nm ++ (match es with
    | none => []
    | some el => [Op.addEdges el ws mds])

/-- the constructor's own `ValueError` -/
def ctorOwnRej (w : Bool) (es : Option (List RawEdge)) (ws : Option (List Int)) : Bool :=
  match es with
  | none => false
  | some el => w && ws.isSome && decide (el.length ≠ (ws.getD []).length)

/-- rejection decided by the arguments alone: an `edge_list` is given and either the number of weights differs from the
    number of hyperedges or a non-empty `edge_metadata` list is shorter than `edge_list` -/
def ctorRejArgs (es : Option (List RawEdge)) (ws : Option (List Int)) (mds : Option (List Meta)) : Bool :=
  match es with
  | none => false
  | some el =>
    (match ws with
     | some l => decide (el.length ≠ l.length)
     | none => false) ||
    (match mds with
     | some m => !m.isEmpty && decide (m.length < el.length)
     | none => false)

/-- the constructor's abstract twin as public calls -/
def Spec.ctorInit (w : Bool) (hm : Option Meta) : Spec := { weighted := w, hmeta := ctorHMeta hm w }

/-! ### raw setters, `populate_from_dict` -/

/-- `set_edge_list(edge_list)` -/
def setEdgeList (s : Store) (el : List (Key × Nat)) : Store := { s with edgeList := el }
/-- `set_adj_dict(adj, 'source')` (`true`) / `set_adj_dict(adj, 'target')` (`false`) -/
def setAdjDict (s : Store) (source : Bool) (adj : Adj) : Store :=
  if source then { s with adjS := adj } else { s with adjT := adj }

/-- `populate_from_dict(data)` for a dictionary holding the ten tables -/
def populate (t : Tables) : Store :=
  { weighted := t.weighted, edgeList := t.edgeList, rev := t.reverse, weights := t.weights, emeta := t.edgeMeta,
    adjS := t.adjSource, adjT := t.adjTarget, nmeta := t.nodeMeta, nextId := t.nextId, hmeta := t.hmeta }

/-- `populate_from_dict` on the whole object: `incidences_metadata` is read with default `{}`; `inc = none`: key absent
    (as in every `expose_data_structures()` result) -/
def Full.populate (t : Tables) (inc : Option IncTable) : Full := { base := C02.populate t, inc := inc.getD [] }

/-- `populate_from_dict({})`: every default -/
def populateEmpty : Store := {}

inductive RawOp
  | pub (o : FOp)
  | setEL (el : List (Key × Nat))
  | setAdj (source : Bool) (adj : Adj)
  | pop (t : Tables)                     -- `populate_from_dict(d)`, `d` without `incidences_metadata`
  deriving Repr

def rawStep (x : Full) : RawOp → Full
  | .pub o => (Full.apply x o).1
  | .setEL el => { x with base := setEdgeList x.base el }
  | .setAdj b adj => { x with base := setAdjDict x.base b adj }
  | .pop t => Full.populate t none

def rawRun (x : Full) : List RawOp → Full
  | [] => x
  | o :: os => rawRun (rawStep x o) os

/-- the raw call hands back what the matching getter returns at that moment -/
def RawOp.echo (x : Full) : RawOp → Bool
  | .pub _ => true
  | .setEL el => el == getEdgeList x.base
  | .setAdj b adj => adj == getAdjDict x.base b
  | .pop t => t == expose x.base

/-- all raw calls of the history are echoes, each judged at its own moment -/
def echoes (x : Full) : List RawOp → Bool
  | [] => true
  | o :: os => o.echo x && echoes (rawStep x o) os

/-- what a mixed history does when its raw calls are echoes: the public calls; `populate(expose())` forgets the
    incidence table (`forget`) -/
inductive PubStep
  | call (o : FOp)
  | forget
  deriving Repr

def pubStep (x : Full) : PubStep → Full
  | .call o => (Full.apply x o).1
  | .forget => { x with inc := [] }

def pubRun (x : Full) : List PubStep → Full
  | [] => x
  | o :: os => pubRun (pubStep x o) os

def pubOps : List RawOp → List PubStep
  | [] => []
  | .pub o :: os => .call o :: pubOps os
  | .pop _ :: os => .forget :: pubOps os
  | _ :: os => pubOps os

/-- the base calls of a mixed history -/
def baseOps : List RawOp → List Op
  | [] => []
  | .pub (.base o) :: os => o :: baseOps os
  | _ :: os => baseOps os

/-! ### `get_mapping` -/

/-- `get_mapping().classes_` -/
def mapping (s : Store) : List Node := sortNodes (nodes s)

def indexFrom (n : Node) : List Node → Nat → Option Nat
  | [], _ => none
  | a :: l, i => if a = n then some i else indexFrom n l (i + 1)

/-- `get_mapping().transform([n])[0]`; `none`: `ValueError` (unseen label) -/
def indexOf? (s : Store) (n : Node) : Option Nat := indexFrom n (mapping s) 0

/-- `get_mapping().inverse_transform([i])[0]`; `none`: out of range -/
def labelOf? (s : Store) (i : Nat) : Option Node := (mapping s)[i]?

def Spec.mapping (s : Spec) : List Node := sortNodes s.nodeList

end C02
