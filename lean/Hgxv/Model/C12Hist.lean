import Hgxv.Model.C12
import Hgxv.Model.C02
/-! C12 on objects reached through a HISTORY (core Lean only).

`Model/C12.lean` takes the listings `get_edges()` / `get_nodes()`.  Here the listings are those of an object of the
full `DirectedHypergraph` model `C02.Store` after a sequence of constructor calls, copies and mutating calls
(`C02.Cmd`, including calls that are REJECTED and `remove_node(keep_edges=True)` whose shrunk hyperedges coincide
with stored ones).  The driver runs the history with `C02.step` and hands `histListing` / `histNodes` of a slot to
the routines of `Model/C12.lean`; `Props/C12.lean` shows `histListing = C12.listing` (the function the `C12_link_*`
theorems speak about) and that the driver's run is `C02.runCmds`. -/
namespace C12

/-- `get_edges()` of the object: the keys of `_edge_list` in creation order -/
def histListing (s : C02.Store) : List DEdge := AL.keys s.edgeList

/-- `get_nodes()` of the object: the keys of `_adj_source` in creation order -/
def histNodes (s : C02.Store) : List Nat := C02.nodes s

/-- all objects after a history that starts with no object -/
def histRun (st : C02.State) : List C02.Cmd → C02.State
  | [] => st
  | c :: cs => histRun (C02.step st c).1 cs

end C12
