import Hgxv.Model.C01X
import Hgxv.Model.C08
/-!
# C01: `subhypergraph_largest_component(size, order)` as a modelled call

`nodes = self.largest_component(size=size, order=order); return self.subhypergraph(nodes)`: the component routine and
Python's `max(components, key=len)` (first component of maximal length, in the order of `get_nodes()`) are the ones of
`Model/C08.lean`; `subhypergraph` is the one of `Model/C01X.lean`.  Core Lean only.
-/
namespace C01
open AL

/-- the `size=` / `order=` pair; `none` = both given (`ValueError` of `largest_component`) -/
def lccFilt (order size : Option Int) : Option C08.Filt :=
  match order, size with
  | some _, some _ => none
  | none, none => some .none
  | some o, none => some (.order o)
  | none, some k => some (.size k)

/-- the node list handed to `subhypergraph`; `none` = raises (both arguments given, or `max()` of no component) -/
def lccNodes (nodes : List Node) (es : List Edge) (order size : Option Int) : Option (List Node) :=
  match lccFilt order size with
  | none => none
  | some f => C08.largestComponent nodes es f

/-- `subhypergraph_largest_component(size, order)` on the tables -/
def subLcc (s : Store) (order size : Option Int) : Store × Out :=
  match lccNodes (keys s.adj) (keys s.edgeList) order size with
  | none => (Store.new s.weighted [], .rej)
  | some comp => subhypergraph s comp

/-- the same text on the abstract hypergraph -/
def Spec.subLcc (a : Spec) (order size : Option Int) : Spec × Out :=
  match lccNodes (keys a.nodes) (keys a.edges) order size with
  | none => (Spec.new a.weighted [], .rej)
  | some comp => Spec.subhypergraph a comp

end C01
