import Hgxv.Model.AList
/-! # C16 — executable model of `hypergraphx/generation/hy_mmsbm_sampling.py` (core Lean only)

Every random draw is an explicit argument (DESIGN §1.3).  A draw of
`Generator.choice(pop, size=k, replace=False)` is the *returned list*; the model checks numpy's
contract (`k` distinct members of `pop`, `validPick`) and answers `none` when it is violated — this is
also what happens in the Python (`ValueError: Cannot take a larger sample than population`) when the
population is too small.  The accept bit `rng.random() < transition_prob` of `_mcmc_step` is an
oracle `Bool` (the transition probability is floating-point code of the inner model).  The
quantiles `stats.poisson.ppf(p, lambd)` inside `sample_truncated_poisson` are an oracle list of
naturals (zero allowed: `p` rounds to `P(X = 0)` for small means); the weight is
`np.maximum(quantile, 1)` (`truncWeight`, the repair of D44), so no weight is zero.  The filter
`np.where(weights > 0)` of `sample` is still modelled (`dropZeros`) and proved to drop nothing.

Python sets are duplicate-free lists; set union / difference / intersection are `union`, `diff`,
`inter`.  Answers are compared after sorting (`canon`). -/
namespace C16

abbrev Hye := List Nat
abbrev Config := List Hye

/-! ## sets as lists -/
def inter (a b : Hye) : Hye := a.filter (fun v => b.contains v)
def diff (a b : Hye) : Hye := a.filter (fun v => !b.contains v)
def union (a b : Hye) : Hye := a ++ diff b a

/-- contract of `rng.choice(pop, size=k, replace=False)`: `k` distinct members of `pop` -/
def validPick (pop : List Nat) (k : Nat) (pick : List Nat) : Bool :=
  pick.length == k && pick.all (fun v => pop.contains v) && decide pick.Nodup

/-! ## `_pairwise_reshuffle` -/

/-- `disjoint_union = (hye1 | hye2) - (hye1 & hye2)`, listed as `(h1 - h2) ++ (h2 - h1)` -/
def disjUnion (h1 h2 : Hye) : Hye := diff h1 h2 ++ diff h2 h1

/-- `new_hye1 = set(choice(disjoint_union, len(hye1) - len(intersection))) | intersection`,
`new_hye2 = (disjoint_union - new_hye1) | intersection` -/
def pairReshuffle (h1 h2 pick : Hye) : Option (Hye × Hye) :=
  if validPick (disjUnion h1 h2) (h1.length - (inter h1 h2).length) pick then
    some (union pick (inter h1 h2), union (diff (disjUnion h1 h2) pick) (inter h1 h2))
  else none

/-! ## `_mcmc_step`, `_mcmc_routine` -/

/-- the draws of one `_mcmc_step`: `idx1, idx2 = choice(len(hye_list), 2, replace=False)`, the pick of the
reshuffle, and the outcome of `rng.random() < transition_prob` -/
structure StepDraw where
  i : Nat
  j : Nat
  pick : List Nat
  accept : Bool
deriving Repr

/-- accepted proposal: `hye_list[idx1] = new_hye1; hye_list[idx2] = new_hye2` -/
def acceptStep (cfg : Config) (i j : Nat) (a b : Hye) : Config := (cfg.set i a).set j b

def mcmcStep (cfg : Config) (d : StepDraw) : Option Config :=
  if h : d.i < cfg.length ∧ d.j < cfg.length ∧ d.i ≠ d.j then
    match pairReshuffle cfg[d.i] cfg[d.j] d.pick with
    | some (a, b) => some (if d.accept then acceptStep cfg d.i d.j a b else cfg)
    | none => none
  else none

/-- `for _ in range(n): self._mcmc_step(hye_list)` with the `n` draws given -/
def mcmcSteps : Config → List StepDraw → Option Config
  | cfg, [] => some cfg
  | cfg, d :: ds => (mcmcStep cfg d).bind (fun c => mcmcSteps c ds)

/-- the `while True:` loop: one block of `intermediate_steps` draws per yielded configuration -/
def yieldsFrom : Config → List (List StepDraw) → Option (List Config)
  | _, [] => some []
  | cfg, ds :: rest =>
    (mcmcSteps cfg ds).bind (fun c => (yieldsFrom c rest).map (fun r => c :: r))

/-- `_mcmc_routine(hye_list, fixed_hyperedges)`: burn-in, then the yields `hye_list + fixed` -/
def mcmcRoutine (cfg fixed : Config) (burn : List StepDraw) (thins : List (List StepDraw)) :
    Option (List Config) :=
  (mcmcSteps cfg burn).bind (fun c0 => (yieldsFrom c0 thins).map (fun ys => ys.map (· ++ fixed)))

/-! ## `_deg_seq_to_dict`, `_extract_hye`, `_match_sequences`

`nodes_with_deg : {degree: set of nodes}` is modelled by its **key list** (`keys`, insertion-ordered, it
decides which degrees the loop visits and whether `nodes_with_deg[0]` exists) together with the map
node ↦ residual degree (`resid : List Nat`, index = node) from which the sets are derived
(`bucket resid d`; `C16_degToDict`: for the initial dictionary these are exactly its sets).  A key
whose set has become empty stays a key, as in the Python: the loop visits it and draws 0 nodes. -/

/-- `_deg_seq_to_dict`: insertion-ordered `{deg: nodes}` -/
def degToDict (degSeq : List Nat) : List (Nat × List Nat) :=
  degSeq.zipIdx.foldl (fun d (p : Nat × Nat) => AL.set d p.1 (((AL.get? d p.1).getD []) ++ [p.2])) []

/-- `nodes_with_deg[d]` -/
def bucket (resid : List Nat) (d : Nat) : List Nat :=
  (List.range resid.length).filter (fun n => resid[n]? == some d)

/-- `sorted((deg for deg in nodes_with_deg.keys() if deg > 0), reverse=True)` -/
def posDegs (keys : List Nat) : List Nat :=
  ((List.range (keys.foldl max 0 + 1)).reverse).filter (fun d => 0 < d && keys.contains d)

/-- the `while n_nodes_sampled < hye_size` loop over the descending degrees; returns the chosen
positive-degree nodes, the degrees visited (keys of `nodes_chosen`), how many nodes are still missing, and the
unused draws -/
def pickLoop (resid : List Nat) : List Nat → Nat → List (List Nat) →
    Option (List Nat × List Nat × Nat × List (List Nat))
  | _, 0, picks => some ([], [], 0, picks)
  | [], need + 1, picks => some ([], [], need + 1, picks)
  | d :: ds, need + 1, picks =>
    match picks with
    | [] => none
    | p :: ps =>
      if validPick (bucket resid d) (min (bucket resid d).length (need + 1)) p then
        (pickLoop resid ds (need + 1 - p.length) ps).map
          (fun r => (p ++ r.1, d :: r.2.1, r.2.2.1, r.2.2.2))
      else none

/-- lower the degree of one chosen node by one -/
def decOne (resid : List Nat) (c : Nat) : List Nat := resid.modify c (· - 1)
/-- the final loop of `_extract_hye` (move every chosen node from bucket `deg` to `deg - 1`) -/
def decResid (resid : List Nat) (chosen : List Nat) : List Nat := chosen.foldl decOne resid

/-- `d[k] = ...` on the key list -/
def addKeyN (ks : List Nat) (k : Nat) : List Nat := if ks.contains k then ks else ks ++ [k]
/-- the final loop creates the key `deg - 1` for every visited degree -/
def moveKeys (keys visited : List Nat) : List Nat := visited.foldl (fun ks d => addKeyN ks (d - 1)) keys

structure ExtractOut where
  hye : Hye
  keys : List Nat
  resid : List Nat
  /-- `self.matching_sequences = False` was executed -/
  exhausted : Bool
  picks : List (List Nat)

/-- top-up branch (`force_dim_seq or not force_deg_seq`): add nodes of degree 0
(`nodes_with_deg[0]` must exist: `KeyError` otherwise) -/
def extractTopUp (keys resid : List Nat) (chosen visited : List Nat) (need : Nat)
    (picks : List (List Nat)) : Option ExtractOut :=
  if keys.contains 0 then
    match picks with
    | [] => none
    | p :: ps =>
      if validPick (bucket resid 0) need p then
        some ⟨chosen ++ p, moveKeys keys visited, decResid resid chosen, true, ps⟩
      else none
  else none

/-- shrink branch (`force_deg_seq and not force_dim_seq`): return what is there; a single node gives the
empty hyperedge and keeps the dictionary; no positive key at all (`nodes_chosen` empty) is `set.union()`
without arguments (TypeError) -/
def extractShrink (keys resid : List Nat) (chosen visited : List Nat) (picks : List (List Nat)) :
    Option ExtractOut :=
  if visited.isEmpty then none
  else if chosen.length = 1 then some ⟨[], keys, resid, true, picks⟩
  else some ⟨chosen, moveKeys keys visited, decResid resid chosen, true, picks⟩

def extractHye (keys resid : List Nat) (size : Nat) (forceDeg forceDim : Bool)
    (picks : List (List Nat)) : Option ExtractOut :=
  if size < 1 then none
  else
    match pickLoop resid (posDegs keys) size picks with
    | none => none
    | some (chosen, visited, 0, picks') =>
      some ⟨chosen, moveKeys keys visited, decResid resid chosen, false, picks'⟩
    | some (chosen, visited, need + 1, picks') =>
      if forceDim || !forceDeg then extractTopUp keys resid chosen visited (need + 1) picks'
      else extractShrink keys resid chosen visited picks'

/-- state of `_match_sequences` -/
structure MState where
  keys : List Nat
  resid : List Nat
  cfg : Config
  /-- `matching_sequences` has not been set to `False` -/
  flag : Bool
  picks : List (List Nat)

/-- one pass of the inner loop: extract, keep the hyperedge when `len(new_hye) > 1` -/
def extractInto (size : Nat) (fd fm : Bool) (st : MState) : Option MState :=
  (extractHye st.keys st.resid size fd fm st.picks).map (fun o =>
    ⟨o.keys, o.resid, if 1 < o.hye.length then st.cfg ++ [o.hye] else st.cfg, st.flag && !o.exhausted, o.picks⟩)

/-- `for _ in range(dim_seq[hye_size])` -/
def extractMany (size : Nat) (fd fm : Bool) : Nat → MState → Option MState
  | 0, st => some st
  | k + 1, st => (extractInto size fd fm st).bind (extractMany size fd fm k)

/-- `for hye_size in dim_seq` -/
def matchLoop (fd fm : Bool) : List (Nat × Nat) → MState → Option MState
  | [], st => some st
  | (size, cnt) :: rest, st => (extractMany size fd fm cnt st).bind (matchLoop fd fm rest)

/-- `_match_sequences(deg_seq, dim_seq, force_deg_seq, force_dim_seq)` for the flag combinations the
property reaches (both sequences given: `true, true`; none given: `false, false`).  The second phase
of `force_deg_seq and not force_dim_seq` is not modelled (it references `self.model`). -/
def matchSequences (degSeq : List Nat) (dimSeq : List (Nat × Nat)) (fd fm : Bool)
    (picks : List (List Nat)) : Option MState :=
  if fd && !fm then none
  else matchLoop fd fm dimSeq ⟨AL.keys (degToDict degSeq), degSeq, [], true, picks⟩

/-! ## output stage of `sample` -/

def insertSorted (a : Nat) : List Nat → List Nat
  | [] => [a]
  | b :: bs => if a ≤ b then a :: b :: bs else b :: insertSorted a bs

/-- `tuple(sorted(hye))` (insertion sort: structural, so that closed examples reduce in the kernel) -/
def canon (e : Hye) : Hye := e.foldr insertSorted []

/-- `mapping.inverse_transform` : index ↦ label (`labels` = the encoder's sorted classes) -/
def relabel (labels : List Nat) (e : Hye) : Option Hye := e.mapM (fun i => labels[i]?)

/-- `for edge, w in zip(hye_list, weights): hye_with_weights[edge] += w` (entries start at 0) -/
def mergeDup (l : List (Hye × Nat)) : List (Hye × Nat) :=
  l.foldl (fun d (p : Hye × Nat) => AL.set d p.1 ((AL.get? d p.1).getD 0 + p.2)) []

/-- drop zero weights: `nonzero = np.where(weights > 0)` -/
def dropZeros (cfg : Config) (ws : List Nat) : List (Hye × Nat) :=
  (cfg.zip ws).filter (fun p => 0 < p.2)

def relabelAll (labels : Option (List Nat)) (l : List (Hye × Nat)) : Option (List (Hye × Nat)) :=
  match labels with
  | none => some l
  | some ls => l.mapM (fun p => (relabel ls p.1).map (fun e => (e, p.2)))

/-- one yielded `Hypergraph` (always `weighted=True`): its hyperedges with their weights -/
def outputStage (cfg : Config) (ws : List Nat) (labels : Option (List Nat)) :
    Option (List (Hye × Nat)) :=
  if ws.length = cfg.length then
    (relabelAll labels (dropZeros (cfg.map canon) ws)).map mergeDup
  else none

/-! ## `sample_truncated_poisson` (after the repair of D44) -/

/-- `np.maximum(stats.poisson.ppf(p, lambd), 1.0)`: the quantile `q` computed by scipy is an oracle natural - it
is 0 when `p = u + (1 - u) * exp(-lambd)` rounds to `P(X = 0)` (and a negative / infinite value of the
unrepaired code is outside the naturals) -; a truncated-Poisson value is at least 1 -/
def truncWeight (q : Nat) : Nat := max q 1
/-- the weights of one sample: one truncated-Poisson draw per hyperedge of the chain state -/
def truncWeights (qs : List Nat) : List Nat := qs.map truncWeight

/-! ## whole runs -/

/-- everything the sampler's own generator `self._rng` delivers during one `sample(...)` run; `quantiles`: per
yielded sample, the Poisson quantiles computed from the uniforms `rng.random(E)` -/
structure OwnTape where
  picks : List (List Nat)
  burn : List StepDraw
  thins : List (List StepDraw)
  quantiles : List (List Nat)

def outputsOf : List Config → List (List Nat) → Option (List Nat) → Option (List (List (Hye × Nat)))
  | [], _, _ => some []
  | _ :: _, [], _ => none
  | c :: cs, w :: ws, labels =>
    (outputStage c w labels).bind (fun o => (outputsOf cs ws labels).map (fun r => o :: r))

/-- chain + output stage from an initial configuration -/
def sampleFromConfig (cfg fixed : Config) (labels : Option (List Nat)) (t : OwnTape) :
    Option (List (List (Hye × Nat))) :=
  (mcmcRoutine cfg fixed t.burn t.thins).bind (fun ys => outputsOf ys (t.quantiles.map truncWeights) labels)

/-- position of a label in the encoder's classes (`mapping.transform`) -/
def transform (labels : List Nat) (e : Hye) : Option Hye :=
  e.mapM (fun x => let i := labels.idxOf x; if i < labels.length then some i else none)

/-- `sample(initial_hyg=...)` -/
def sampleFromHyg (labels : List Nat) (edges : Config) (t : OwnTape) :
    Option (List (List (Hye × Nat))) :=
  (edges.mapM (transform labels)).bind (fun cfg => sampleFromConfig cfg [] (some labels) t)

/-- `sample(deg_seq=..., dim_seq=...)` and, with the sequences and the dyadic hyperedges drawn by the
inner model (`fixed`), `sample()` -/
def sampleFromSeqs (degSeq : List Nat) (dimSeq : List (Nat × Nat)) (fd fm : Bool) (fixed : Config)
    (t : OwnTape) : Option (Bool × List (List (Hye × Nat))) :=
  (matchSequences degSeq dimSeq fd fm t.picks).bind (fun st =>
    (sampleFromConfig st.cfg fixed none t).map (fun o => (st.flag, o)))

/-! ## `sample(initial_hyg=...)` for node labels of ANY type

Node labels are arbitrary hashable, mutually comparable Python objects (integers of any size, floats, strings,
`Fraction`s, ...).  The only things the sampler does with them: look a label up in the encoder's classes
(`transform`: its position = the internal id), index the classes with an id (`inverse_transform`), and use tuples of
labels as dictionary keys when duplicates are merged.  The same code, for a label type `α` with decidable equality;
`labels` = the encoder's classes (the order in which the encoder lists them is an input). -/
section AnyLabels
variable {α : Type} [DecidableEq α]

/-- `mapping.inverse_transform` -/
def relabelG (labels : List α) (e : Hye) : Option (List α) := e.mapM (fun i => labels[i]?)

/-- `for edge, w in zip(hye_list, weights): hye_with_weights[edge] += w` with label tuples as keys -/
def mergeDupG (l : List (List α × Nat)) : List (List α × Nat) :=
  l.foldl (fun d (p : List α × Nat) => AL.set d p.1 ((AL.get? d p.1).getD 0 + p.2)) []

def relabelAllG (labels : List α) (l : List (Hye × Nat)) : Option (List (List α × Nat)) :=
  l.mapM (fun p => (relabelG labels p.1).map (fun e => (e, p.2)))

def outputStageG (cfg : Config) (ws : List Nat) (labels : List α) : Option (List (List α × Nat)) :=
  if ws.length = cfg.length then
    (relabelAllG labels (dropZeros (cfg.map canon) ws)).map mergeDupG
  else none

def outputsOfG : List Config → List (List Nat) → List α → Option (List (List (List α × Nat)))
  | [], _, _ => some []
  | _ :: _, [], _ => none
  | c :: cs, w :: ws, labels =>
    (outputStageG c w labels).bind (fun o => (outputsOfG cs ws labels).map (fun r => o :: r))

/-- the encoding of one hyperedge of the initial hypergraph, node by node: position of the label in the classes -/
def transformG (labels : List α) (e : List α) : Option Hye :=
  e.mapM (fun x => let i := labels.idxOf x; if i < labels.length then some i else none)

/-- `sample(initial_hyg=...)`: encode, run the chain on the ids, decode every sample -/
def sampleFromHygG (labels : List α) (edges : List (List α)) (t : OwnTape) :
    Option (List (List (List α × Nat))) :=
  (edges.mapM (transformG labels)).bind (fun cfg =>
    (mcmcRoutine cfg [] t.burn t.thins).bind (fun ys =>
      outputsOfG ys (t.quantiles.map truncWeights) labels))

/-- a sample carried along a map of the labels -/
def mapOut {β : Type} (f : α → β) (o : List (List α × Nat)) : List (List β × Nat) :=
  o.map (fun p => (p.1.map f, p.2))

/-- number of hyperedges of a listing that contain the label `x` (hyperedges are duplicate-free) -/
def degOfG (x : α) (edges : List (List α)) : Nat := (edges.map (fun e => e.count x)).sum

/-- number of hyperedges of size `s` -/
def sizeCountG (s : Nat) (edges : List (List α)) : Nat := (edges.map List.length).count s

end AnyLabels

/-! ## seeds: which generator feeds which draw -/

/-- what the inner `HyMMSBM` draws when nothing is given: degree sequence, size sequence, dyadic
hyperedges (Gaussian / Poisson draws of `self._model._rng`) -/
structure InnerTape where
  degSeq : List Nat
  dimSeq : List (Nat × Nat)
  dyads : Config

/-- numpy's determinism: `default_rng(seed)` fixes everything the generator will deliver -/
structure Gens where
  ownOf : Nat → OwnTape
  innerOf : Nat → InnerTape

/-- `HyMMSBMSampler(u, w, ..., seed).sample()`.  `repaired = true`: the inner model is built with the
sampler's seed (after the fix of D29); `false`: the unrepaired code, whose inner model is seeded from
the operating system (`ambient`). -/
def samplerRunModel (repaired : Bool) (G : Gens) (seed : Nat) (ambient : InnerTape) :
    Option (Bool × List (List (Hye × Nat))) :=
  let inner := if repaired then G.innerOf seed else ambient
  sampleFromSeqs inner.degSeq inner.dimSeq false false inner.dyads (G.ownOf seed)

/-- `HyMMSBMSampler(..., seed).sample(deg_seq, dim_seq)` -/
def samplerRunSeqs (G : Gens) (seed : Nat) (degSeq : List Nat) (dimSeq : List (Nat × Nat)) :=
  sampleFromSeqs degSeq dimSeq true true [] (G.ownOf seed)

/-- `HyMMSBMSampler(..., seed).sample(initial_hyg=h)` -/
def samplerRunHyg (G : Gens) (seed : Nat) (labels : List Nat) (edges : Config) :=
  sampleFromHyg labels edges (G.ownOf seed)

/-! ## one sampler object, several `sample(...)` calls

What outlives a `sample(...)` call on the sampler object and is read or written by a later call: the two
generators (represented, as everywhere in this model, by what they deliver: each call carries the draws it
receives - which draws these are is numpy's business and depends on how much was consumed before) and the report
`matching_sequences` (`None` at construction; `_match_sequences` sets it to `None` at its start since the repair of
D48, an extraction that runs out of positive-degree nodes sets it to `False`, `_match_sequences` sets it to `True`
at its end when it is still `None`).  The parameters `u, w` only enter the oracles (accept bits, quantiles, the
inner model's draws).  Nothing else is kept: in particular the label encoder of an initial hypergraph is a local
variable of the call. -/

/-- the arguments of one `sample(...)` call: `sample(initial_hyg=h)` (`labels` = sorted nodes of `h`),
`sample(deg_seq, dim_seq)`, `sample()` -/
inductive CallArgs where
  | hyg (labels : List Nat) (edges : Config)
  | seqs (degSeq : List Nat) (dimSeq : List (Nat × Nat))
  | model
deriving Repr

/-- one call with everything the two generators deliver to the generator object it returns -/
structure Call where
  args : CallArgs
  own : OwnTape
  inner : InnerTape

/-- the mutable attribute of the sampler object that `sample` reads / writes: `matching_sequences` -/
structure Sampler where
  flag : Option Bool
deriving Repr, DecidableEq

/-- what the caller sees of one call: the report `matching_sequences` the call made (`none`: the call made no
report - `sample(initial_hyg=...)` does not touch the attribute) and the yielded hypergraphs -/
structure CallOut where
  report : Option Bool
  outs : List (List (Hye × Nat))
deriving Repr, DecidableEq

/-- `matching_sequences` at the end of `_match_sequences`; `ok` = no extraction executed
`self.matching_sequences = False`.  `reset = true` is the code after the repair of D48 (the attribute is set to
`None` at the start of `_match_sequences`), `reset = false` the unrepaired code (the old value stays). -/
def flagAfter (reset : Bool) (old : Option Bool) (ok : Bool) : Option Bool :=
  if ok then
    match (if reset then none else old) with
    | none => some true
    | some b => some b
  else some false

/-- a call that goes through `_sampling_from_sequences` -/
def seqCall (reset : Bool) (s : Sampler) (degSeq : List Nat) (dimSeq : List (Nat × Nat)) (fd fm : Bool)
    (fixed : Config) (t : OwnTape) : Sampler × Option CallOut :=
  match matchSequences degSeq dimSeq fd fm t.picks with
  | none => (⟨if reset then none else s.flag⟩, none)
  | some st =>
    (⟨flagAfter reset s.flag st.flag⟩,
      (sampleFromConfig st.cfg fixed none t).map (fun o => ⟨flagAfter reset s.flag st.flag, o⟩))

/-- one `sample(...)` call on a sampler in state `s` (the generator it returns, consumed as far as the draws
reach): the new state and what the caller sees (`none` = the call raised) -/
def callStep (reset : Bool) (s : Sampler) (c : Call) : Sampler × Option CallOut :=
  match c.args with
  | .hyg labels edges => (s, (sampleFromHyg labels edges c.own).map (fun o => ⟨none, o⟩))
  | .seqs degSeq dimSeq => seqCall reset s degSeq dimSeq true true [] c.own
  | .model => seqCall reset s c.inner.degSeq c.inner.dimSeq false false c.inner.dyads c.own

/-- several calls on ONE sampler object, in the order in which their generators are started -/
def runSession (reset : Bool) : Sampler → List Call → List (Option CallOut)
  | _, [] => []
  | s, c :: cs => (callStep reset s c).2 :: runSession reset (callStep reset s c).1 cs

/-- the same call on a sampler that has just been built -/
def freshCall (c : Call) : Option CallOut := (callStep true ⟨none⟩ c).2

/-! ## observables used by the theorems -/

/-- every hyperedge of the configuration is a set (duplicate-free list) -/
def AllNodup (cfg : Config) : Prop := ∀ e ∈ cfg, e.Nodup

/-- a yielded hypergraph is well-formed: no repeated hyperedge (the keys are pairwise different and each is a
strictly increasing list, the canonical representative of its node set) and positive integer weights -/
def ValidOut (out : List (Hye × Nat)) : Prop :=
  (out.map (·.1)).Nodup ∧ ∀ p ∈ out, 0 < p.2 ∧ p.1.Pairwise (· < ·)

/-- the sizes one entry `{size: count}` of a size sequence contributes (`len(new_hye) > 1` filter) -/
def sizesOf (size cnt : Nat) : List Nat := if 2 ≤ size then List.replicate cnt size else []
/-- the size list requested by a size sequence, in iteration order -/
def sizesOfSeq (dimSeq : List (Nat × Nat)) : List Nat := dimSeq.flatMap (fun p => sizesOf p.1 p.2)

/-- number of hyperedges of the configuration that contain node `n` (hyperedges are duplicate-free) -/
def degOf (n : Nat) (cfg : Config) : Nat := (cfg.map (fun e => e.count n)).sum
/-- number of hyperedges of size `s` -/
def sizeCount (s : Nat) (cfg : Config) : Nat := (cfg.map List.length).count s
/-- conditioned count of size `s` in a size sequence -/
def dimCount (dimSeq : List (Nat × Nat)) (s : Nat) : Nat :=
  ((dimSeq.filter (fun p => p.1 == s)).map (·.2)).sum

end C16
