import Hgxv.Model.C04
/-! # C04 - the serialisation dictionary of a `MultiplexHypergraph` (strengthening round d)

`expose_data_structures()` hands out the tables of the object in a dict keyed by NAMES, `populate_from_dict(data)`
reads them back with `data.get(name, default)`.  `save_hypergraph(h, path, binary=True)` pickles the first,
`load_hypergraph("*.hgx")` builds `MultiplexHypergraph(weighted=data["_weighted"])` and calls the second; `pickle` /
`copy.deepcopy` of the object itself copy the attribute dict.  A loaded object is a starting point (or a mid-point) of a
history like any other, so the model has to be able to say what it is: `reload s = populate (expose s)`.

Python                                   | model
-----------------------------------------|-----------------------------------------------------------
the dict returned by `expose_...`        | `Dump = List (String × Field)` (one constructor of `Field` per table type)
`data.get(name, default)`                | `lookup d name` + the `Store` default of that field
`_load_pickle` (type test, ctor, populate) | `loadDump`

A value of the wrong type under a name cannot be expressed in Python's `get` (it is simply stored); the model totalises it
to the default - `expose` never produces one.  Core Lean only. -/
namespace C04

inductive Field
  | str (s : String)
  | flag (b : Bool)
  | num (n : Nat)
  | hmeta (m : HMeta)
  | nmeta (m : List (Node × Meta))
  | emeta (m : List (Nat × Meta))
  | weights (m : List (Nat × Int))
  | edgeList (m : List (Key × Nat))
  | adj (m : List (Node × List Nat))
  | rev (m : List (Nat × Key))
  | layers (l : List Layer)
  deriving Repr

abbrev Dump := List (String × Field)

/-- `expose_data_structures()`: the key names are those of the Python method -/
def expose (s : Store) : Dump :=
  [ ("type", .str "MultiplexHypergraph"),
    ("hypergraph_metadata", .hmeta s.hmeta),
    ("node_metadata", .nmeta s.nmeta),
    ("edge_metadata", .emeta s.emeta),
    ("_weighted", .flag s.weighted),
    ("_weights", .weights s.weights),
    ("_edge_list", .edgeList s.edgeList),
    ("_adj", .adj s.adj),
    ("reverse_edge_list", .rev s.rev),
    ("next_edge_id", .num s.nextId),
    ("existing_layers", .layers s.layers) ]

/-- `data.get(name)` -/
def lookup : Dump → String → Option Field
  | [], _ => none
  | (k, v) :: t, name => if k = name then some v else lookup t name

/-- `populate_from_dict(data)`: every table is read by name, a missing name gives the empty table / `False` / `0` -/
def populate (d : Dump) : Store :=
  { hmeta := match lookup d "hypergraph_metadata" with | some (.hmeta m) => m | _ => []
    nmeta := match lookup d "node_metadata" with | some (.nmeta m) => m | _ => []
    emeta := match lookup d "edge_metadata" with | some (.emeta m) => m | _ => []
    weighted := match lookup d "_weighted" with | some (.flag b) => b | _ => false
    weights := match lookup d "_weights" with | some (.weights m) => m | _ => []
    edgeList := match lookup d "_edge_list" with | some (.edgeList m) => m | _ => []
    adj := match lookup d "_adj" with | some (.adj m) => m | _ => []
    rev := match lookup d "reverse_edge_list" with | some (.rev m) => m | _ => []
    nextId := match lookup d "next_edge_id" with | some (.num n) => n | _ => 0
    layers := match lookup d "existing_layers" with | some (.layers l) => l | _ => [] }

/-- `_load_pickle`: the dict must say it is a multiplex hypergraph and carry `_weighted` (`data["_weighted"]` raises
otherwise); the freshly constructed object is then overwritten table by table -/
def loadDump (d : Dump) : Option Store :=
  match lookup d "type", lookup d "_weighted" with
  | some (.str "MultiplexHypergraph"), some (.flag _) => some (populate d)
  | _, _ => none

/-- save (binary) and load again / `populate_from_dict(expose_data_structures())` -/
def reload (s : Store) : Store := populate (expose s)

/-- names of the serialisation dictionary (compared with the keys of the real dict by the harness) -/
def dumpKeys (s : Store) : List String := (expose s).map (·.1)

/-- `edge_overlap` walks a SET of layer names: any order of the registry -/
def overlapIn (s : Store) (order : List Layer) (raw : List Node) : Int :=
  (order.map (fun l => (getWeight s raw l).getD 0)).sum

end C04
