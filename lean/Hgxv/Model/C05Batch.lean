import Hgxv.Model.C05
/-! Second extension of the C05 content model (core Lean only; `Model/C05.lean` is unchanged): calls that RAISE HALF-WAY.

`C05.step` treats a rejected call as "nothing happened".  That is what the single mutators of `C05.Op` do, but not
* `DirectedHypergraph.remove_node(node)` of a node that is source AND target of one hyperedge: the removal loop walks
  `source_edges` then `target_edges`, meets that hyperedge a second time and `remove_edge` raises `KeyError` - after the
  `keep_edges` loop has run and a part of the incident hyperedges has been removed; the node stays in the node table;
* `DirectedHypergraph.remove_nodes / remove_edges`: plain `for` loops over the single calls - the first call that raises
  ends the batch, what was done before stays done.  `Hypergraph.remove_nodes / remove_edges` validate the whole batch
  first (every item present, no item twice) and raise before anything is changed (all-or-nothing).

Here a call answers `(state left, returned?)`. -/
namespace C05

variable {κ : Type} [DecidableEq κ] [Keyed κ]

/-- do the batch mutators of the class validate the whole batch before the first single call?
(`Hypergraph`: yes, `DirectedHypergraph`: no) -/
class Batch (κ : Type) where
  validates : Bool
instance : Batch UKey := ⟨true⟩
instance : Batch DKey := ⟨false⟩

/-- a single call of the old model as (state left, returned?): a rejected single call leaves the object as it was -/
def orSame (c : Content κ) (o : Option (Content κ)) : Content κ × Bool :=
  match o with
  | none => (c, false)
  | some c' => (c', true)

/-- `for x in xs: f(x)`: the first call that raises ends the loop; what was done before stays done -/
def loopRaw {α : Type} (f : Content κ → α → Content κ × Bool) : Content κ → List α → Content κ × Bool
  | c, [] => (c, true)
  | c, x :: xs =>
    let r := f c x
    if r.2 then loopRaw f r.1 xs else r

/-- `remove_node(node, keep_edges)` exactly as the code runs it, for EVERY node (also one that is source and target of one
directed hyperedge): `KeyError` for an absent node; the `keep_edges` loop; the removal loop over the incident hyperedges
(`source_edges` then `target_edges`) - a hyperedge met a second time makes `remove_edge` raise, the loop stops there;
only when the loop came through the node leaves the node table -/
def removeNodeRaw (c : Content κ) (n : Node) (keep : Bool) : Content κ × Bool :=
  if !AL.has c.nodes n then (c, false) else
  let es := Keyed.incident n (AL.keys c.edges)
  let r1 := if keep then loopRaw (fun h k => orSame h (shrinkInto n h k)) c es else (c, true)
  if !r1.2 then r1 else
  let r2 := loopRaw (fun h k => orSame h (removeEdge h k)) r1.1 es
  if !r2.2 then r2 else ({ r2.1 with nodes := AL.erase r2.1.nodes n }, true)

/-- `remove_edges(edge_list)` on canonical keys -/
def removeEdgesB [Batch κ] (c : Content κ) (ks : List κ) : Content κ × Bool :=
  if Batch.validates κ && !(ks.all (fun k => AL.has c.edges k) && decide ks.Nodup) then (c, false)
  else loopRaw (fun h k => orSame h (removeEdge h k)) c ks

/-- `remove_nodes(node_list, keep_edges)` -/
def removeNodesB [Batch κ] (c : Content κ) (ns : List Node) (keep : Bool) : Content κ × Bool :=
  if Batch.validates κ && !(ns.all (fun n => AL.has c.nodes n) && decide ns.Nodup) then (c, false)
  else loopRaw (fun h n => removeNodeRaw h n keep) c ns

/-- the larger operation set: the sixteen single mutators, `remove_node` as the code runs it on every node, and the
two removal batches -/
inductive OpX (κ : Type) where
  | base (op : Op κ)
  | removeNodeRaw (n : Node) (keep : Bool)
  | removeEdges (ks : List κ)
  | removeNodes (ns : List Node) (keep : Bool)

/-- one call: the state it leaves and whether it returned -/
def applyX [Batch κ] (c : Content κ) : OpX κ → Content κ × Bool
  | .base op => orSame c (apply? c op)
  | .removeNodeRaw n keep => removeNodeRaw c n keep
  | .removeEdges ks => removeEdgesB c ks
  | .removeNodes ns keep => removeNodesB c ns keep

def stepX [Batch κ] (c : Content κ) (op : OpX κ) : Content κ := (applyX c op).1

def runX [Batch κ] (c : Content κ) (ops : List (OpX κ)) : Content κ := ops.foldl stepX c

/-- the first hyperedge the removal loop meets a second time, and the hyperedges removed before it -/
def firstRepeat : List κ → List κ → Option (List κ × κ)
  | _, [] => none
  | seen, k :: ks => if seen.contains k then some (seen, k) else firstRepeat (seen ++ [k]) ks

end C05
